#!/bin/bash
# Build the framework offline from files on disk (warms the Go build cache,
# including the race-detector variant).
set -eu
cd "$(dirname "$0")"
export GOFLAGS=-mod=mod GOPROXY=off GOSUMDB=off GOTOOLCHAIN=local
mkdir -p .build .work evidence
cd harness
go build -o ../.build/vcheck ./cmd/vcheck
go test -c -tags verif -o ../.build/props.test ./props
go test -c -race -tags verif -o ../.build/props.race.test ./props
echo setup ok
