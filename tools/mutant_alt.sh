#!/bin/bash
# tools/mutant_alt.sh <worktree> <patch.diff> <prop> [prop...]
# Like mutant.sh but on a scratch worktree (VERIF_REPO), so /repo stays untouched
# and other checks can run meanwhile. Evidence files are not meaningful for such runs.
set -u
wt="$1"; patch="$(readlink -f "$2")"; shift 2
props=("$@")
[ "${props[0]:-ALL}" = "ALL" ] && props=(C01 C02 C03 C04 C05 C06 C07 C08 C09 C10 C11 C12 C13 C14 C15 C16 C17 C18 C19)
export GOFLAGS=-mod=mod GOPROXY=off GOSUMDB=off GOTOOLCHAIN=local
cd "$wt" || exit 2
git checkout -q -- . ; git clean -fdq; git checkout -q --detach "$(git -C /repo rev-parse HEAD)"
git apply "$patch" || { echo "PATCH-DOES-NOT-APPLY $patch"; exit 2; }
go build -tags verif ./... || { echo "DOES-NOT-COMPILE"; git checkout -q -- .; exit 2; }
go test -vet=off -count=1 ./... >/dev/null 2>&1 || { echo "BASELINE-FAILS"; git checkout -q -- .; exit 2; }
caught=""; missed=""
for p in "${props[@]}"; do
  out=$(VERIF_REPO="$wt" VERIF_NOEVIDENCE=1 VERIF_SEED=${VERIF_SEED:-1} /verif/check "$p" quick 2>&1); code=$?
  if [ $code -eq 1 ]; then caught="$caught $p"; elif [ $code -eq 0 ]; then missed="$missed $p"; else echo "INFRA on $p: $(echo "$out" | tail -3)"; fi
done
git checkout -q -- . ; git clean -fdq
echo "MUTANT $patch CAUGHT:[$caught ] MISSED:[$missed ]"
