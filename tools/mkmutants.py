#!/usr/bin/env python3
"""Creates /verif/mutants/<name>/patch.diff (+ meta.json) from textual edits,
using a scratch worktree of /repo at /tmp/mut. Hand-written sensitivity mutants."""
import subprocess, os, json, sys
WT = '/tmp/mut'
OUT = '/verif/mutants'
def sh(cmd, cwd=WT):
    return subprocess.run(cmd, shell=True, cwd=cwd, capture_output=True, text=True)
def reset():
    sh('git checkout -q -- . && git clean -fdq')
    sh('git checkout -q --detach $(git -C /repo rev-parse HEAD)')
M = []
def mut(name, expect, desc, edits=None, revert=None):
    M.append((name, expect, desc, edits, revert))

mut('m01-connect-drops-topicaliasmax', ['C01','C02'], 'CONNECT encoder no longer writes Topic Alias Maximum',
    [('connect.go', '	i += p.topicAliasMax.fillProp(b, i, TopicAliasMax)\n', '')])
mut('m02-connack-propmap-swapped-fields', ['C01','C03'], 'CONNACK decoder stores Server Keep Alive into topicAliasMax and vice versa',
    [('connack.go', 'TopicAliasMax:         func() wireType { return &p.topicAliasMax },', 'TopicAliasMax:         func() wireType { return &p.serverKeepAlive },'),
     ('connack.go', 'ServerKeepAlive:       func() wireType { return &p.serverKeepAlive },', 'ServerKeepAlive:       func() wireType { return &p.topicAliasMax },')])
mut('m04-serverkeepalive-ident-0x14', ['C02','C03'], 'ServerKeepAlive identifier constant 0x13 -> 0x14 (symmetric in encoder and decoder)',
    [('const.go', 'ServerKeepAlive        Ident = 0x13', 'ServerKeepAlive        Ident = 0x14')])
mut('m06-connack-propmap-missing-sharedsub', ['C01','C03'], 'CONNACK propertyMap loses SharedSubAvailable',
    [('connack.go', '		SharedSubAvailable:    func() wireType { return &p.sharedSubAvailable },\n', '')])
mut('m07-puback-short-form-len3', ['C03'], 'PUBACK decoder reads the reason code only if len(data) > 3',
    [('puback.go', '	if len(data) > 2 {', '	if len(data) > 3 {')])
mut('m09-wuint32-no-length-check', ['C04','C09'], 'four byte integer decoder without length check',
    [('wiretypes.go', '''	if len(data) < 4 {
		return unmarshalErr(v, "", "missing data")
	}
''', '')])
mut('m10-unsubscribe-loop-no-exit', ['C05','C04','C09'], 'UNSUBSCRIBE filter loop does not stop on error',
    [('unsubscribe.go', '''		if b.err != nil {
			// b.i no longer advances, the loop would never end
			return b.err
		}
''', '')])
mut('m11-subscribe-quadratic-append', ['C05'], 'SUBSCRIBE decoder re-copies the filter list for every element',
    [('subscribe.go', '		p.filters = append(p.filters, f)\n		if b.i == len(data) {', '		p.filters = append(append([]TopicFilter{}, p.filters...), f)\n		if b.i == len(data) {')])
mut('m12-readpacket-bufio', ['C06'], 'ReadPacket wraps the reader in a bufio.Reader (over-reads the stream)',
    [('packet.go', '''	var fh fixedHeader
	if _, err := fh.ReadFrom(r); err != nil {''', '''	var fh fixedHeader
	r = bufio.NewReader(r)
	if _, err := fh.ReadFrom(r); err != nil {'''),
     ('packet.go', 'import (\n', 'import (\n	"bufio"\n')])
mut('m13-body-single-read', ['C07','C08'], 'frame body fetched with a single Read again',
    [('packet.go', 'if _, err := io.ReadFull(r, data); err != nil {', 'if _, err := r.Read(data); err != nil {')])
mut('m14-header-byte-plain-read', ['C07'], 'first byte fetched with a plain Read: (1, io.EOF) is a failure, (0, nil) a byte',
    [('wiretypes.go', '	if n, err := io.ReadFull(r, data); err != nil {\n		return int64(n), err\n	}', '	if n, err := r.Read(data); err != nil {\n		return int64(n), err\n	}')])
mut('m15-readpacket-error-not-wrapped', ['C08'], 'ReadRemaining formats the reader error with %v',
    [('packet.go', '''			"%s ReadRemaining: %w",''', '''			"%s ReadRemaining: %v",''')])
mut('m16-body-error-ignored-when-bytes-read', ['C08'], 'body read error ignored when some bytes were read',
    [('packet.go', 'if _, err := io.ReadFull(r, data); err != nil {', 'if n, err := io.ReadFull(r, data); err != nil && n == 0 {')])
mut('m20-publish-writeto-returns-len', ['C10'], 'Publish.WriteTo returns len(b) instead of the writer count',
    [('publish.go', '''	b := make([]byte, p.fill(_LEN, 0))
	p.fill(b, 0)
	n, err := w.Write(b)
	return int64(n), err''', '''	b := make([]byte, p.fill(_LEN, 0))
	p.fill(b, 0)
	_, err := w.Write(b)
	return int64(len(b)), err''')])
mut('m23-dump-sorts-userprops-in-place', ['C11','C13'], 'UserProperties.dump sorts the properties in place',
    [('userprop.go', '	fmt.Fprintln(w, "UserProperties")\n', '	sort.Slice(*p, func(i, j int) bool { return (*p)[i][0] < (*p)[j][0] })\n	fmt.Fprintln(w, "UserProperties")\n'),
     ('userprop.go', 'import (\n	"fmt"\n	"io"\n)', 'import (\n	"fmt"\n	"io"\n	"sort"\n)')])
mut('m25-setpassword-toggles-username-flag', ['C12','C01'], 'SetPassword toggles the user name flag instead of the password flag when cleared',
    [('connect.go', '	p.flags.toggle(PasswordFlag, len(p.password) > 0)', '	p.flags.toggle(PasswordFlag, len(p.password) > 0)\n	if len(p.password) == 0 {\n		p.flags.toggle(UsernameFlag, false)\n	}')])
mut('m26-publish-width-memoised', ['C13'], 'Publish.width caches its result in a struct field',
    [('publish.go', '	subscriptionIDs []uint32\n}', '	subscriptionIDs []uint32\n	cachedWidth     int\n}'),
     ('publish.go', 'func (p *Publish) width() int {\n	return p.fill(_LEN, 0)\n}', 'func (p *Publish) width() int {\n	p.cachedWidth = p.fill(_LEN, 0)\n	return p.cachedWidth\n}')])
mut('m28-rawdata-keeps-input', ['C14'], 'rawdata.UnmarshalBinary keeps the input slice (PUBLISH payload aliases the frame)',
    [('wiretypes.go', '	*v = make([]byte, len(data))\n	copy(*v, data)\n	return nil\n}\nfunc (v rawdata) fill', '	*v = data\n	return nil\n}\nfunc (v rawdata) fill')])
mut('m30-vbint-size-guard-late', ['C15','C09'], 'in-memory variable byte integer decoder checks the size one group late',
    [('wiretypes.go', '''		value += uint(encodedByte) & uint(127) * multiplier
		if multiplier > 128*128*128 {
			return unmarshalErr(v, "", "size exceeded")
		}
		if encodedByte&128 == 0 {
			*v = vbint(value)''', '''		value += uint(encodedByte) & uint(127) * multiplier
		if multiplier > 128*128*128*128 {
			return unmarshalErr(v, "", "size exceeded")
		}
		if encodedByte&128 == 0 {
			*v = vbint(value)''')])
mut('m32-puback-fixed-masked', ['C16'], 'dispatch keeps only the type nibble for PUBACK',
    [('packet.go', 'p = &PubAck{fixed: f.fixed}', 'p = &PubAck{fixed: f.fixed & 0xf0}')])
mut('m31-dispatch-pubrec-pubcomp-swapped', ['C16','C01'], 'PUBREC and PUBCOMP case labels swapped in the dispatch',
    [('packet.go', '	case PUBCOMP:\n		p = &PubComp{fixed: f.fixed}\n\n	case PUBREC:\n		p = &PubRec{fixed: f.fixed}', '	case PUBCOMP:\n		p = &PubRec{fixed: f.fixed}\n\n	case PUBREC:\n		p = &PubComp{fixed: f.fixed}')])
mut('m34-subid-limit-off-by-one', ['C17'], 'Subscribe.WellFormed: subscription identifier limit uses >=',
    [('subscribe.go', '*v > 268_435_455', '*v >= 268_435_455')])
mut('m35-filter-qos2-flagged', ['C17'], 'TopicFilter.WellFormed tests the QoS2 bit instead of both QoS bits',
    [('topicfilter.go', '	if c.options.Has(byte(OptQoS3)) {\n		return newMalformed(c, "QoS", "invalid")', '	if c.options.Has(byte(OptQoS2)) {\n		return newMalformed(c, "QoS", "invalid")')])
mut('m36-dump-leaks-first-char-of-username', ['C18'], 'Dump prints the first character of the user name before the stars',
    [('connect.go', '	fmt.Fprintf(w, "Username: %v\\n", stars(len(p.Username())))', '	if u := p.Username(); len(u) > 0 {\n		fmt.Fprintf(w, "Username: %c%v\\n", u[0], stars(len(u)))\n	} else {\n		fmt.Fprintf(w, "Username: %v\\n", stars(0))\n	}')])
mut('m37-CONTROL-stars-of-real-length', [], 'CONTROL (must stay green): stars() prints as many stars as the secret is long',
    [('connect.go', '	return "*********"', '	return strings.Repeat("*", v)'),
     ('connect.go', '	"io"\n	"time"', '	"io"\n	"strings"\n	"time"')])
mut('m38-subscribe-filterstring-no-empty-check', ['C19'], 'Subscribe.filterString indexes filters[0] without checking for an empty list',
    [('subscribe.go', '	if len(p.filters) == 0 {\n		return "" // malformed\n	}\n	return p.filters[0].String()', '	return p.filters[0].String()')])
mut('m40-string-of-connack-uses-reasonstring-index', ['C19'], 'withReason indexes a fixed-size name table with the raw code',
    [('connack.go', '	if code := p.ReasonCode(); code >= 0x80 {', '	if code := p.ReasonCode(); code >= 0x80 {\n		_ = [0xa3]string{}[code]')])
# reverts of the repairs
for name, commit, expect in [
    ('r-d1a-uint16-wrap', '1751da6', ['C01','C03']),
    ('r-d6-will-retain', 'bc44034', ['C01','C03']),
    ('r-d7-will-prop-order', '17337dd', ['C11','C01']),
    ('r-d8-session-present', '7fcaf3a', ['C12','C01']),
    ('r-d5-ack-reason0', '00800d5', ['C01','C02']),
    ('r-d11-disconnect-props', 'ff0e61a', ['C03']),
    ('r-d1-length-checks', 'c66cd8f', ['C04','C09','C05']),
    ('r-d2-filter-loop', 'b6cc39c', ['C05','C04','C09']),
    ('r-d3-truncated-vbi', 'f776b8c', ['C09','C15']),
    ('r-d4-readfull', 'fc6547d', ['C07','C08','C06']),
    ('r-d10-wellformed-alias', '9e0c275', ['C17']),
    ('r-d9-undefined-alias', 'bc73822', ['C14']),
    ('r-d12-buffer-past-end', '2c526bb', ['C04']),
]:
    mut(name, expect, 'revert of fix commit %s' % commit, revert=commit)

only = sys.argv[1:]
for name, expect, desc, edits, revert in M:
    if only and name not in only: continue
    reset()
    if revert:
        r = sh('git revert --no-commit %s' % revert)
        if r.returncode != 0:
            print('REVERT FAILED', name, r.stderr[:300]); sh('git revert --abort'); continue
        diff = sh('git diff HEAD').stdout
        sh('git revert --abort'); 
    else:
        ok = True
        for f, old, new in edits:
            p = os.path.join(WT, f); s = open(p).read()
            if old not in s:
                print('EDIT NOT FOUND', name, f, repr(old[:50])); ok = False; break
            open(p, 'w').write(s.replace(old, new, 1))
        if not ok: continue
        sh('gofmt -w *.go')
        diff = sh('git diff').stdout
    d = os.path.join(OUT, name); os.makedirs(d, exist_ok=True)
    open(os.path.join(d, 'patch.diff'), 'w').write(diff)
    json.dump({'name': name, 'expected_to_be_caught_by': expect, 'summary': desc, 'origin': 'hand-written sensitivity mutant (tools/mkmutants.py)'}, open(os.path.join(d, 'meta.json'), 'w'), indent=1)
    print('ok', name, len(diff))
reset()
