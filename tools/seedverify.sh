#!/bin/bash
# tools/seedverify.sh <dir with patch.diff demo_test.go meta.json>
# Confirms in the scratch worktree /tmp/mut: patch applies, builds (also -tags verif),
# baseline suite passes with the patch, demo fails with it and passes without it.
set -u
d="$(readlink -f "$1")"
export GOFLAGS=-mod=mod GOPROXY=off GOSUMDB=off GOTOOLCHAIN=local
cd "${WT:-/tmp/mut}" || exit 2
git checkout -q -- . ; git clean -fdq; git checkout -q --detach "$(git -C /repo rev-parse HEAD)"
git apply "$d/patch.diff" || { echo "SEED $d: PATCH-DOES-NOT-APPLY"; exit 1; }
go build ./... && go build -tags verif ./... || { echo "SEED $d: DOES-NOT-COMPILE"; git checkout -q -- .; exit 1; }
go test -vet=off -count=1 ./... >/tmp/seedverify.$$.log 2>&1 || { echo "SEED $d: BASELINE-FAILS-WITH-PATCH"; tail -5 /tmp/seedverify.$$.log; git checkout -q -- .; git clean -fdq; exit 1; }
cp "$d/demo_test.go" ./zz_seeded_demo_test.go
if timeout 300 go test -vet=off -count=1 -run 'TestSeededDemo' . >/tmp/seedverify.$$.log 2>&1; then echo "SEED $d: DEMO-PASSES-WITH-PATCH (invalid)"; git checkout -q -- .; git clean -fdq; exit 1; fi
git checkout -q -- . ; git clean -fdq -e zz_seeded_demo_test.go   # patches may add files
if ! timeout 300 go test -vet=off -count=1 -run 'TestSeededDemo' . >/tmp/seedverify.$$.log 2>&1; then echo "SEED $d: DEMO-FAILS-WITHOUT-PATCH (invalid)"; tail -5 /tmp/seedverify.$$.log; git clean -fdq; exit 1; fi
git clean -fdq
echo "SEED $d: VALID"
