HOOK_COMMITS = []
NOT_APPLICABLE = {}

add("C01", "property-based testing (rapid): generated packets + setter orders, round-trip oracle against an explicit accessor model, byte-identical re-encode",
    "Generated-input search over the constructible packet space with a round-trip oracle that compares every public accessor with the abstract model and re-encodes; finds asymmetric encoder/decoder errors, dropped fields and boundary-length failures. Exploration: does not prove absence.", GEN)
