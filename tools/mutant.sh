#!/bin/bash
# tools/mutant.sh <patch.diff> <prop> [prop...]
# Applies a patch to /repo, checks that it compiles and passes the baseline
# suite, runs the quick checks of the listed properties (all if "ALL"),
# prints CAUGHT/MISSED per property, and always restores /repo.
set -u
patch="$(readlink -f "$1")"; shift
props=("$@")
[ "${props[0]:-ALL}" = "ALL" ] && props=(C01 C02 C03 C04 C05 C06 C07 C08 C09 C10 C11 C12 C13 C14 C15 C16 C17 C18 C19)
export GOFLAGS=-mod=mod GOPROXY=off GOSUMDB=off GOTOOLCHAIN=local
cd /repo
[ -z "$(git status --porcelain)" ] || { echo "/repo not clean"; exit 2; }
restore() { git -C /repo checkout -q -- . ; git -C /repo clean -fdq; }
trap restore EXIT
git apply "$patch" || { echo "PATCH-DOES-NOT-APPLY $patch"; exit 2; }
if ! go build -tags verif ./... >/dev/null 2>&1 || ! go vet -tags verif . >/dev/null 2>&1 && ! go build ./... ; then echo "DOES-NOT-COMPILE"; exit 2; fi
if ! go test -vet=off -count=1 ./... >/tmp/mutant_base.log 2>&1; then echo "BASELINE-FAILS (not a valid mutant)"; tail -5 /tmp/mutant_base.log; exit 2; fi
caught=""; missed=""
for p in "${props[@]}"; do
  out=$(VERIF_SEED=${VERIF_SEED:-1} /verif/check "$p" quick 2>&1); code=$?
  if [ $code -eq 1 ]; then caught="$caught $p"; [ -n "${VERBOSE:-}" ] && echo "$out" | grep -A3 "^VIOLATION" | head -8
  elif [ $code -eq 0 ]; then missed="$missed $p"
  else echo "INFRA on $p:"; echo "$out" | tail -5; fi
done
echo "MUTANT $(basename "$(dirname "$patch")")/$(basename "$patch") CAUGHT:[$caught ] MISSED:[$missed ]"
