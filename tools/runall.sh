#!/bin/bash
# tools/runall.sh <quick|thorough> [seed] [props...]: run checks one after another, print one line each.
tier="${1:-quick}"; seed="${2:-1}"; shift 2 2>/dev/null
props=("$@"); [ ${#props[@]} -eq 0 ] && props=(C01 C02 C03 C04 C05 C06 C07 C08 C09 C10 C11 C12 C13 C14 C15 C16 C17 C18 C19)
cd "$(dirname "$0")/.."
rc=0
for p in "${props[@]}"; do
  out=$(VERIF_SEED=$seed ./check "$p" "$tier" 2>&1); code=$?
  echo "$out" | grep -E "^(VIOLATION|KNOWN-FINDING|INFRA|TIMEOUT|BUILD-FAILED)" | head -5
  echo "$out" | tail -1
  [ $code -ne 0 ] && rc=1
done
exit $rc
