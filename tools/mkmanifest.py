#!/usr/bin/env python3
"""Regenerates /verif/MANIFEST.json from the table below (run after a check is added)."""
import json, sys, os

ROOT = os.path.dirname(os.path.dirname(os.path.abspath(__file__)))

# id -> (technique, level category, level text, level note, design ref)
CHECKS = {}

def add(pid, technique, text, note, cat="exploration"):
    CHECKS[pid] = dict(technique=technique, cat=cat, text=text, note=note)

REF = "Trusted base: the hand-written reference codec harness/ref (from the OASIS text, no code or constants shared with the library; cross-checked encode->strict-decode in every run), rapid v1.3.0, Go toolchain."
GEN = "Trusted base: rapid v1.3.0 generators/shrinking, the abstract model + builder/observer in harness/api (public API only), Go toolchain."

exec(open(os.path.join(ROOT, "tools", "checks_table.py")).read())

def main():
    props = [json.loads(l)["id"] for l in open(os.path.join(ROOT, "properties.jsonl"))]
    checks = []
    na = []
    for pid in props:
        c = CHECKS.get(pid)
        if not c:
            na.append({"property_id": pid, "reason": NOT_APPLICABLE.get(pid, "check not built yet (work in progress in this session)")})
            continue
        checks.append({
            "property_id": pid,
            "quick_cmd": "./check %s quick" % pid,
            "thorough_cmd": "./check %s thorough" % pid,
            "evidence_file": "/verif/evidence/%s.json" % pid,
            "replay_cmd_template": "./check %s --replay {path}" % pid,
            "engine": "vcheck",
            "level_claimed": {"category": c["cat"], "text": c["text"], "design_ref": "DESIGN.md section 4, %s" % pid},
            "level_note": c["note"],
            "technique": c["technique"],
        })
    m = {
        "version": 1,
        "setup_cmd": "./setup.sh",
        "hooks": {
            "guard": "verif",
            "enable": "go test -tags verif (the harness module replaces github.com/gregoryv/mq with /repo, so every check compiles /repo's working tree with the tag on)",
            "baseline_off_cmd": "cd /repo && GOFLAGS=-mod=mod GOPROXY=off GOSUMDB=off go test -vet=off -count=1 ./...",
            "source_commits": HOOK_COMMITS,
            "add_only": True,
        },
        "engines": [{
            "name": "vcheck",
            "path": "/verif/harness",
            "serves_properties": [c["property_id"] for c in checks],
            "kind_free_text": "Go property-based testing harness: rapid v1.3.0 generators and state machines, exhaustive enumerations of finite sub-spaces, native go-fuzz targets (thorough), an independent reference MQTT codec as differential oracle, scripted fault-injecting readers/writers, watchdog for hangs; driver shards over 16 cores and merges evidence",
        }],
        "checks": checks,
        "notes": "Every check: ./check <id> quick|thorough [--replay file]; exit 0 held / 1 VIOLATION / 2 infrastructure. Seeds derive from VERIF_SEED. Committed regression inputs in replays/<id>/ are re-run first on every check. known_findings.json lists repaired (fixed:) and open findings.",
        "not_applicable": na,
    }
    json.dump(m, open(os.path.join(ROOT, "MANIFEST.json"), "w"), indent=1)
    print("MANIFEST.json: %d checks, %d not_applicable" % (len(checks), len(na)))

main()
