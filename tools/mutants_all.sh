#!/bin/bash
# Runs every mutant in /verif/mutants (and /verif/seeded) against the checks expected to catch it.
cd /verif
for d in ${1:-mutants}/*/; do
  n=$(basename "$d")
  exp=$(python3 -c "import json;m=json.load(open('$d/meta.json'));print(' '.join(m.get('expected_to_be_caught_by') or m.get('caught_by') or ['ALL']))")
  [ -z "$exp" ] && exp="ALL"
  tools/mutant.sh "$d/patch.diff" $exp 2>&1 | tail -3
done
