#!/bin/bash
# Cross matrix: every seeded change and hand mutant against every quick check.
# Three workers, each on its own scratch worktree (/tmp/mut, /tmp/mut2, /tmp/mut3).
cd /verif
out=${1:-/verif/seeded/MATRIX.txt}
if [ -n "${MATRIX_DIRS:-}" ]; then printf "%s\n" $MATRIX_DIRS > /tmp/matrix.list; else ls -d seeded/*/ mutants/*/ > /tmp/matrix.list; fi
rm -f /tmp/matrix.part.*
worker() {
  wt=$1; idx=$2
  i=0
  while read d; do
    if [ $((i % 6)) -eq $idx ] && [ -f "$d/patch.diff" ]; then
      r=$(tools/mutant_alt.sh $wt "$d/patch.diff" ALL 2>&1 | grep -E "^(MUTANT|INFRA|BASELINE|DOES|PATCH)" | tr '\n' ' ')
      echo "$(basename $d): $r" | sed 's#MUTANT /verif/[^ ]* ##' >> /tmp/matrix.part.$idx
    fi
    i=$((i+1))
  done < /tmp/matrix.list
}
worker /tmp/mut 0 & worker /tmp/mut2 1 & worker /tmp/mut3 2 & worker /tmp/mut4 3 & worker /tmp/mut5 4 & worker /tmp/mut6 5 &
wait
cat /tmp/matrix.part.* | sort > "$out"
