#!/bin/bash
# Cross matrix: every seeded change and hand mutant against every quick check, on the scratch worktree /tmp/mut.
cd /verif
out=${1:-/verif/seeded/MATRIX.txt}
: > "$out.tmp"
for d in seeded/*/ mutants/*/; do
  [ -f "$d/patch.diff" ] || continue
  r=$(tools/mutant_alt.sh /tmp/mut "$d/patch.diff" ALL 2>&1 | grep -E "^(MUTANT|INFRA|BASELINE|DOES|PATCH)" | tr '\n' ' ')
  echo "$(basename $d): $r" | sed 's#MUTANT /verif/[^ ]* ##' >> "$out.tmp"
done
mv "$out.tmp" "$out"
