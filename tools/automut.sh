#!/bin/bash
# tools/automut.sh <nworkers>: systematic first-order mutation run.
# Mutants come from harness/cmd/mutgen (/tmp/automut/<id>/patch.diff). Each worker owns a scratch
# worktree; a mutant is skipped if it does not compile or if the baseline suite already fails on it,
# otherwise the quick checks run (most likely catcher first) until one reports a violation.
# Result lines go to /tmp/automut.results.<worker>.
nw=${1:-6}
export GOFLAGS=-mod=mod GOPROXY=off GOSUMDB=off GOTOOLCHAIN=local
order=(C01 C03 C09 C12 C04 C02 C10 C17 C16 C07 C08 C06 C05 C19 C11 C14 C18 C15 C13)
wts=(/tmp/mut /tmp/mut2 /tmp/mut3 /tmp/mut4 /tmp/mut5 /tmp/mut6)
[ -n "${AUTOMUT_LIST:-}" ] && cp "$AUTOMUT_LIST" /tmp/automut.list || ls /tmp/automut | sort > /tmp/automut.list
worker() {
  idx=$1; wt=${wts[$idx]}
  : > /tmp/automut.results.$idx
  i=0
  while read id; do
    i=$((i+1))
    [ $((i % nw)) -eq $idx ] || continue
    d=/tmp/automut/$id
    cd $wt; git checkout -q -- . ; git clean -fdq
    info=$(python3 -c "import json;m=json.load(open('$d/meta.json'));print(m['file']+':'+str(m['line'])+' ['+m['operator']+': '+m['original']+' -> '+m['mutated']+'] '+m['source_line'][:90])")
    if ! git apply $d/patch.diff 2>/dev/null; then echo "$id noapply $info" >> /tmp/automut.results.$idx; continue; fi
    if ! go build -tags verif ./... >/dev/null 2>&1; then echo "$id nocompile $info" >> /tmp/automut.results.$idx; continue; fi
    if ! timeout 120 go test -vet=off -count=1 . >/dev/null 2>&1; then echo "$id baseline $info" >> /tmp/automut.results.$idx; continue; fi
    res="survived"
    for p in "${order[@]}"; do
      VERIF_REPO=$wt VERIF_NOEVIDENCE=1 VERIF_SEED=1 /verif/check $p quick >/tmp/automut.out.$idx 2>&1; code=$?
      if [ $code -eq 1 ]; then res="caught:$p"; break; fi
      if [ $code -ne 0 ]; then res="infra:$p"; break; fi
    done
    echo "$id $res $info" >> /tmp/automut.results.$idx
  done < /tmp/automut.list
  cd $wt; git checkout -q -- . ; git clean -fdq
}
for k in $(seq 0 $((nw-1))); do worker $k & done
wait
cat /tmp/automut.results.* ${AUTOMUT_KEEP:-/dev/null} | sort > /verif/mutants/AUTOMUT.txt
