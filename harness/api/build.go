package api

import (
	"io"

	"github.com/gregoryv/mq"

	"verif/harness/model"
)

// Setter describes one public setter (scalar: last write wins) or adder
// (list: appends) of a packet type.
type Setter struct {
	Name   string
	IsList bool
	// Len reports the number of list elements the model holds (adders only).
	Len func(m *model.Packet) int
	// Apply calls the library setter with the model's current value (scalar),
	// or adds list element i (adder).
	Apply func(p mq.ControlPacket, m *model.Packet, i int)
	// IsZero reports whether the model holds the zero value for the field, in
	// which case Build may skip the call (drawn by the caller).
	IsZero func(m *model.Packet) bool
}

// BuildWill builds the *mq.Publish for a will through the public API.
func BuildWill(w *model.Will) *mq.Publish {
	p := mq.NewPublish()
	ApplyWill(p, w)
	return p
}

// ApplyWill sets every will field on an existing publish (used to change a
// will message and attach the same object again).
func ApplyWill(p *mq.Publish, w *model.Will) {
	p.UserProperties = nil
	p.SetTopicName(w.Topic)
	p.SetPayload(cp(w.Payload))
	p.SetQoS(w.QoS)
	p.SetRetain(w.Retain)
	p.SetDuplicate(w.XDup)
	p.SetPayloadFormat(w.PayloadFormat)
	p.SetMessageExpiryInterval(w.MessageExpiry)
	p.SetContentType(w.ContentType)
	p.SetResponseTopic(w.ResponseTopic)
	p.SetCorrelationData(cp(w.CorrelationData))
	for _, kv := range w.UserProps {
		p.AddUserProp(kv.K, kv.V)
	}
}

type setReasonString interface{ SetReasonString(string) }
type setSessionExpiry interface{ SetSessionExpiryInterval(uint32) }
type setServerReference interface{ SetServerReference(string) }

func userProps(get func(p mq.ControlPacket) *mq.UserProperties) Setter {
	return Setter{
		Name: "AddUserProp", IsList: true,
		Len: func(m *model.Packet) int { return len(m.UserProps) },
		Apply: func(p mq.ControlPacket, m *model.Packet, i int) {
			// pass a slice with spare capacity and keep using it afterwards,
			// as a caller may: the packet must have copied what it keeps
			// With the full model in hand (a Build, not a step-by-step
			// sequence) the pairs 1+2, 4+5, ... go in through ONE variadic
			// call each: the arity of a call is the caller's choice.
			if multiPairDone(m, i) {
				return // went in together with its predecessor
			}
			if i%3 == 1 && i+1 < len(m.UserProps) {
				kv := make([]string, 4, 8)
				kv[0], kv[1] = m.UserProps[i].K, m.UserProps[i].V
				kv[2], kv[3] = m.UserProps[i+1].K, m.UserProps[i+1].V
				get(p).AddUserProp(kv...)
				kv[0], kv[2] = "caller-reused-key", "caller-reused-key2"
				markMultiPair(m, i+1)
				return
			}
			kv := make([]string, 2, 6)
			kv[0], kv[1] = m.UserProps[i].K, m.UserProps[i].V
			get(p).AddUserProp(kv...)
			kv[0], kv[1] = "caller-reused-key", "caller-reused-value"
			_ = append(kv, "caller", "appended")
		},
	}
}

func sc(name string, zero func(m *model.Packet) bool, apply func(p mq.ControlPacket, m *model.Packet)) Setter {
	return Setter{Name: name, IsZero: zero, Apply: func(p mq.ControlPacket, m *model.Packet, _ int) { apply(p, m) }}
}

// multiPair remembers, per model being built, which user property element
// was already added together with its predecessor (single goroutine).
var multiPair = map[*model.Packet]int{}

func markMultiPair(m *model.Packet, elem int) {
	if len(multiPair) > 64 {
		multiPair = map[*model.Packet]int{}
	}
	multiPair[m] = elem
}

func multiPairDone(m *model.Packet, elem int) bool {
	if e, ok := multiPair[m]; ok && e == elem {
		delete(multiPair, m)
		return true
	}
	return false
}

// callerFilter is the TopicFilter variable a caller reuses across AddFilters calls.
var callerFilter mq.TopicFilter

// Setters returns the setter table of a packet type.
func Setters(typ uint8) []Setter {
	switch typ {
	case model.CONNECT:
		c := func(p mq.ControlPacket) *mq.Connect { return p.(*mq.Connect) }
		return []Setter{
			// the constructor's defaults count as "zero": the setter may be skipped
			sc("SetProtocolName", func(m *model.Packet) bool { return m.ProtocolName == "MQTT" }, func(p mq.ControlPacket, m *model.Packet) { c(p).SetProtocolName(m.ProtocolName) }),
			sc("SetProtocolVersion", func(m *model.Packet) bool { return m.ProtocolVersion == 5 }, func(p mq.ControlPacket, m *model.Packet) { c(p).SetProtocolVersion(m.ProtocolVersion) }),
			sc("SetCleanStart", func(m *model.Packet) bool { return !m.CleanStart }, func(p mq.ControlPacket, m *model.Packet) { c(p).SetCleanStart(m.CleanStart) }),
			sc("SetKeepAlive", func(m *model.Packet) bool { return m.KeepAlive == 0 }, func(p mq.ControlPacket, m *model.Packet) { c(p).SetKeepAlive(m.KeepAlive) }),
			sc("SetClientID", func(m *model.Packet) bool { return m.ClientID == "" }, func(p mq.ControlPacket, m *model.Packet) { c(p).SetClientID(m.ClientID) }),
			sc("SetUsername", func(m *model.Packet) bool { return m.Username == "" }, func(p mq.ControlPacket, m *model.Packet) { c(p).SetUsername(m.Username) }),
			sc("SetPassword", func(m *model.Packet) bool { return len(m.Password) == 0 }, func(p mq.ControlPacket, m *model.Packet) { c(p).SetPassword(bin(m, m.Password)) }),
			sc("SetWill", func(m *model.Packet) bool { return m.Will == nil }, func(p mq.ControlPacket, m *model.Packet) {
				if m.Will != nil {
					c(p).SetWill(BuildWill(m.Will))
				}
			}),
			sc("SetWillDelayInterval", func(m *model.Packet) bool { return m.WillDelay == 0 }, func(p mq.ControlPacket, m *model.Packet) { c(p).SetWillDelayInterval(m.WillDelay) }),
			sc("SetSessionExpiryInterval", func(m *model.Packet) bool { return m.SessionExpiry == 0 }, func(p mq.ControlPacket, m *model.Packet) { c(p).SetSessionExpiryInterval(m.SessionExpiry) }),
			sc("SetReceiveMax", func(m *model.Packet) bool { return m.ReceiveMax == 0 }, func(p mq.ControlPacket, m *model.Packet) { c(p).SetReceiveMax(m.ReceiveMax) }),
			sc("SetMaxPacketSize", func(m *model.Packet) bool { return m.MaxPacketSize == 0 }, func(p mq.ControlPacket, m *model.Packet) { c(p).SetMaxPacketSize(m.MaxPacketSize) }),
			sc("SetTopicAliasMax", func(m *model.Packet) bool { return m.TopicAliasMax == 0 }, func(p mq.ControlPacket, m *model.Packet) { c(p).SetTopicAliasMax(m.TopicAliasMax) }),
			sc("SetRequestResponseInfo", func(m *model.Packet) bool { return !m.RequestResponseInfo }, func(p mq.ControlPacket, m *model.Packet) { c(p).SetRequestResponseInfo(m.RequestResponseInfo) }),
			sc("SetRequestProblemInfo", func(m *model.Packet) bool { return !m.RequestProblemInfo }, func(p mq.ControlPacket, m *model.Packet) { c(p).SetRequestProblemInfo(m.RequestProblemInfo) }),
			sc("SetAuthMethod", func(m *model.Packet) bool { return m.AuthMethod == "" }, func(p mq.ControlPacket, m *model.Packet) { c(p).SetAuthMethod(m.AuthMethod) }),
			sc("SetAuthData", func(m *model.Packet) bool { return len(m.AuthData) == 0 }, func(p mq.ControlPacket, m *model.Packet) { c(p).SetAuthData(bin(m, m.AuthData)) }),
			userProps(func(p mq.ControlPacket) *mq.UserProperties { return &c(p).UserProperties }),
		}
	case model.CONNACK:
		c := func(p mq.ControlPacket) *mq.ConnAck { return p.(*mq.ConnAck) }
		return []Setter{
			sc("SetSessionPresent", func(m *model.Packet) bool { return !m.SessionPresent }, func(p mq.ControlPacket, m *model.Packet) { c(p).SetSessionPresent(m.SessionPresent) }),
			sc("SetReasonCode", func(m *model.Packet) bool { return m.ReasonCode == 0 }, func(p mq.ControlPacket, m *model.Packet) { c(p).SetReasonCode(mq.ReasonCode(m.ReasonCode)) }),
			sc("SetReasonString", func(m *model.Packet) bool { return m.ReasonString == "" }, func(p mq.ControlPacket, m *model.Packet) { c(p).SetReasonString(m.ReasonString) }),
			sc("SetSessionExpiryInterval", func(m *model.Packet) bool { return m.SessionExpiry == 0 }, func(p mq.ControlPacket, m *model.Packet) { c(p).SetSessionExpiryInterval(m.SessionExpiry) }),
			sc("SetReceiveMax", func(m *model.Packet) bool { return m.ReceiveMax == 0 }, func(p mq.ControlPacket, m *model.Packet) { c(p).SetReceiveMax(m.ReceiveMax) }),
			sc("SetMaxQoS", func(m *model.Packet) bool { return m.MaxQoS == 0 }, func(p mq.ControlPacket, m *model.Packet) { c(p).SetMaxQoS(m.MaxQoS) }),
			sc("SetRetainAvailable", func(m *model.Packet) bool { return !m.RetainAvailable }, func(p mq.ControlPacket, m *model.Packet) { c(p).SetRetainAvailable(m.RetainAvailable) }),
			sc("SetMaxPacketSize", func(m *model.Packet) bool { return m.MaxPacketSize == 0 }, func(p mq.ControlPacket, m *model.Packet) { c(p).SetMaxPacketSize(m.MaxPacketSize) }),
			sc("SetAssignedClientID", func(m *model.Packet) bool { return m.AssignedClientID == "" }, func(p mq.ControlPacket, m *model.Packet) { c(p).SetAssignedClientID(m.AssignedClientID) }),
			sc("SetTopicAliasMax", func(m *model.Packet) bool { return m.TopicAliasMax == 0 }, func(p mq.ControlPacket, m *model.Packet) { c(p).SetTopicAliasMax(m.TopicAliasMax) }),
			sc("SetWildcardSubAvailable", func(m *model.Packet) bool { return !m.WildcardSubAvail }, func(p mq.ControlPacket, m *model.Packet) { c(p).SetWildcardSubAvailable(m.WildcardSubAvail) }),
			sc("SetSubIdentifiersAvailable", func(m *model.Packet) bool { return !m.SubIDsAvail }, func(p mq.ControlPacket, m *model.Packet) { c(p).SetSubIdentifiersAvailable(m.SubIDsAvail) }),
			sc("SetSharedSubAvailable", func(m *model.Packet) bool { return !m.SharedSubAvail }, func(p mq.ControlPacket, m *model.Packet) { c(p).SetSharedSubAvailable(m.SharedSubAvail) }),
			sc("SetServerKeepAlive", func(m *model.Packet) bool { return m.ServerKeepAlive == 0 }, func(p mq.ControlPacket, m *model.Packet) { c(p).SetServerKeepAlive(m.ServerKeepAlive) }),
			sc("SetResponseInformation", func(m *model.Packet) bool { return m.ResponseInformation == "" }, func(p mq.ControlPacket, m *model.Packet) { c(p).SetResponseInformation(m.ResponseInformation) }),
			sc("SetServerReference", func(m *model.Packet) bool { return m.ServerReference == "" }, func(p mq.ControlPacket, m *model.Packet) { c(p).SetServerReference(m.ServerReference) }),
			sc("SetAuthMethod", func(m *model.Packet) bool { return m.AuthMethod == "" }, func(p mq.ControlPacket, m *model.Packet) { c(p).SetAuthMethod(m.AuthMethod) }),
			sc("SetAuthData", func(m *model.Packet) bool { return len(m.AuthData) == 0 }, func(p mq.ControlPacket, m *model.Packet) { c(p).SetAuthData(bin(m, m.AuthData)) }),
			userProps(func(p mq.ControlPacket) *mq.UserProperties { return &c(p).UserProperties }),
		}
	case model.PUBLISH:
		c := func(p mq.ControlPacket) *mq.Publish { return p.(*mq.Publish) }
		return []Setter{
			sc("SetDuplicate", func(m *model.Packet) bool { return !m.Dup }, func(p mq.ControlPacket, m *model.Packet) { c(p).SetDuplicate(m.Dup) }),
			sc("SetQoS", func(m *model.Packet) bool { return m.QoS == 0 }, func(p mq.ControlPacket, m *model.Packet) { c(p).SetQoS(m.QoS) }),
			sc("SetRetain", func(m *model.Packet) bool { return !m.Retain }, func(p mq.ControlPacket, m *model.Packet) { c(p).SetRetain(m.Retain) }),
			sc("SetTopicName", func(m *model.Packet) bool { return m.TopicName == "" }, func(p mq.ControlPacket, m *model.Packet) { c(p).SetTopicName(m.TopicName) }),
			sc("SetPacketID", func(m *model.Packet) bool { return m.PacketID == 0 }, func(p mq.ControlPacket, m *model.Packet) { c(p).SetPacketID(m.PacketID) }),
			sc("SetPayloadFormat", func(m *model.Packet) bool { return !m.PayloadFormat }, func(p mq.ControlPacket, m *model.Packet) { c(p).SetPayloadFormat(m.PayloadFormat) }),
			sc("SetMessageExpiryInterval", func(m *model.Packet) bool { return m.MessageExpiry == 0 }, func(p mq.ControlPacket, m *model.Packet) { c(p).SetMessageExpiryInterval(m.MessageExpiry) }),
			sc("SetTopicAlias", func(m *model.Packet) bool { return m.TopicAlias == 0 }, func(p mq.ControlPacket, m *model.Packet) { c(p).SetTopicAlias(m.TopicAlias) }),
			sc("SetResponseTopic", func(m *model.Packet) bool { return m.ResponseTopic == "" }, func(p mq.ControlPacket, m *model.Packet) { c(p).SetResponseTopic(m.ResponseTopic) }),
			sc("SetCorrelationData", func(m *model.Packet) bool { return len(m.CorrelationData) == 0 }, func(p mq.ControlPacket, m *model.Packet) { c(p).SetCorrelationData(bin(m, m.CorrelationData)) }),
			sc("SetContentType", func(m *model.Packet) bool { return m.ContentType == "" }, func(p mq.ControlPacket, m *model.Packet) { c(p).SetContentType(m.ContentType) }),
			sc("SetPayload", func(m *model.Packet) bool { return len(m.Payload) == 0 }, func(p mq.ControlPacket, m *model.Packet) { c(p).SetPayload(bin(m, m.Payload)) }),
			{
				Name: "AddSubscriptionID", IsList: true,
				Len:   func(m *model.Packet) int { return len(m.SubIDs) },
				Apply: func(p mq.ControlPacket, m *model.Packet, i int) { c(p).AddSubscriptionID(m.SubIDs[i]) },
			},
			userProps(func(p mq.ControlPacket) *mq.UserProperties { return &c(p).UserProperties }),
		}
	case model.PUBACK, model.PUBREC, model.PUBREL, model.PUBCOMP:
		type ack interface {
			SetPacketID(uint16)
			SetReasonCode(mq.ReasonCode)
			SetReasonString(string)
		}
		up := func(p mq.ControlPacket) *mq.UserProperties {
			switch p := p.(type) {
			case *mq.PubAck:
				return &p.UserProperties
			case *mq.PubRec:
				return &p.UserProperties
			case *mq.PubRel:
				return &p.UserProperties
			case *mq.PubComp:
				return &p.UserProperties
			}
			panic("not an ack")
		}
		return []Setter{
			sc("SetPacketID", func(m *model.Packet) bool { return m.PacketID == 0 }, func(p mq.ControlPacket, m *model.Packet) { p.(ack).SetPacketID(m.PacketID) }),
			sc("SetReasonCode", func(m *model.Packet) bool { return m.ReasonCode == 0 }, func(p mq.ControlPacket, m *model.Packet) { p.(ack).SetReasonCode(mq.ReasonCode(m.ReasonCode)) }),
			sc("SetReasonString", func(m *model.Packet) bool { return m.ReasonString == "" }, func(p mq.ControlPacket, m *model.Packet) { p.(ack).SetReasonString(m.ReasonString) }),
			userProps(up),
		}
	case model.SUBSCRIBE:
		c := func(p mq.ControlPacket) *mq.Subscribe { return p.(*mq.Subscribe) }
		return []Setter{
			sc("SetPacketID", func(m *model.Packet) bool { return m.PacketID == 0 }, func(p mq.ControlPacket, m *model.Packet) { c(p).SetPacketID(m.PacketID) }),
			sc("SetSubscriptionID", func(m *model.Packet) bool { return m.SubID < 0 }, func(p mq.ControlPacket, m *model.Packet) {
				if m.SubID >= 0 {
					c(p).SetSubscriptionID(m.SubID)
				}
			}),
			{
				Name: "AddFilters", IsList: true,
				Len: func(m *model.Packet) int { return len(m.Filters) },
				Apply: func(p mq.ControlPacket, m *model.Packet, i int) {
					// a caller-owned list with spare capacity, reused afterwards
					list := make([]mq.TopicFilter, 1, 4)
					list[0] = mq.NewTopicFilter(m.Filters[i].Filter, mq.Opt(m.Filters[i].Opts))
					reuse := (i+len(m.Filters[i].Filter))%2 == 0
					if reuse {
						// one TopicFilter variable that the caller fills again
						// for every filter it adds (a value type: what was added
						// before is a copy and must stay as it was)
						callerFilter.SetFilter(m.Filters[i].Filter)
						callerFilter.SetOptions(mq.Opt(m.Filters[i].Opts))
						list[0] = callerFilter
					}
					if !reuse && (i+len(m.Filters[i].Filter))%3 == 0 {
						// add a placeholder and edit it in place through the
						// accessor (a bridge prefixing a mount point): Filters()
						// hands out the packet's own list, TopicFilter's setters
						// have pointer receivers
						list[0] = mq.NewTopicFilter("placeholder/+", 0)
						c(p).AddFilters(list...)
						if fs := c(p).Filters(); len(fs) > 0 {
							fs[len(fs)-1].SetFilter(m.Filters[i].Filter)
							fs[len(fs)-1].SetOptions(mq.Opt(m.Filters[i].Opts))
						}
						list[0] = mq.NewTopicFilter("caller/reused", 3)
						return
					}
					c(p).AddFilters(list...)
					if reuse {
						callerFilter.SetFilter("caller/next")
						callerFilter.SetOptions(3)
						callerFilter.SetFilter("n")
					}
					list[0] = mq.NewTopicFilter("caller/reused", 3)
					_ = append(list, mq.NewTopicFilter("caller/appended", 3), mq.NewTopicFilter("caller/appended2", 3))
				},
			},
			userProps(func(p mq.ControlPacket) *mq.UserProperties { return &c(p).UserProperties }),
		}
	case model.SUBACK, model.UNSUBACK:
		type sack interface {
			SetPacketID(uint16)
			SetReasonString(string)
			AddReasonCode(mq.ReasonCode)
		}
		up := func(p mq.ControlPacket) *mq.UserProperties {
			switch p := p.(type) {
			case *mq.SubAck:
				return &p.UserProperties
			case *mq.UnsubAck:
				return &p.UserProperties
			}
			panic("not a suback")
		}
		return []Setter{
			sc("SetPacketID", func(m *model.Packet) bool { return m.PacketID == 0 }, func(p mq.ControlPacket, m *model.Packet) { p.(sack).SetPacketID(m.PacketID) }),
			sc("SetReasonString", func(m *model.Packet) bool { return m.ReasonString == "" }, func(p mq.ControlPacket, m *model.Packet) { p.(sack).SetReasonString(m.ReasonString) }),
			{
				Name: "AddReasonCode", IsList: true,
				Len: func(m *model.Packet) int { return len(m.ReasonCodes) },
				Apply: func(p mq.ControlPacket, m *model.Packet, i int) {
					p.(sack).AddReasonCode(mq.ReasonCode(m.ReasonCodes[i]))
				},
			},
			userProps(up),
		}
	case model.UNSUBSCRIBE:
		c := func(p mq.ControlPacket) *mq.Unsubscribe { return p.(*mq.Unsubscribe) }
		return []Setter{
			sc("SetPacketID", func(m *model.Packet) bool { return m.PacketID == 0 }, func(p mq.ControlPacket, m *model.Packet) { c(p).SetPacketID(m.PacketID) }),
			{
				Name: "AddFilter", IsList: true,
				Len:   func(m *model.Packet) int { return len(m.UnsubFilters) },
				Apply: func(p mq.ControlPacket, m *model.Packet, i int) { c(p).AddFilter(m.UnsubFilters[i]) },
			},
			userProps(func(p mq.ControlPacket) *mq.UserProperties { return &c(p).UserProperties }),
		}
	case model.DISCONNECT:
		c := func(p mq.ControlPacket) *mq.Disconnect { return p.(*mq.Disconnect) }
		s := []Setter{
			sc("SetReasonCode", func(m *model.Packet) bool { return m.ReasonCode == 0 }, func(p mq.ControlPacket, m *model.Packet) { c(p).SetReasonCode(mq.ReasonCode(m.ReasonCode)) }),
			userProps(func(p mq.ControlPacket) *mq.UserProperties { return &c(p).UserProperties }),
		}
		if DisconnectHasSetters() {
			s = append(s,
				sc("SetReasonString", func(m *model.Packet) bool { return m.ReasonString == "" }, func(p mq.ControlPacket, m *model.Packet) {
					interface{}(c(p)).(setReasonString).SetReasonString(m.ReasonString)
				}),
				sc("SetSessionExpiryInterval", func(m *model.Packet) bool { return m.SessionExpiry == 0 }, func(p mq.ControlPacket, m *model.Packet) {
					interface{}(c(p)).(setSessionExpiry).SetSessionExpiryInterval(m.SessionExpiry)
				}),
				sc("SetServerReference", func(m *model.Packet) bool { return m.ServerReference == "" }, func(p mq.ControlPacket, m *model.Packet) {
					interface{}(c(p)).(setServerReference).SetServerReference(m.ServerReference)
				}),
			)
		}
		return s
	case model.AUTH:
		c := func(p mq.ControlPacket) *mq.Auth { return p.(*mq.Auth) }
		return []Setter{
			sc("SetReasonCode", func(m *model.Packet) bool { return m.ReasonCode == 0 }, func(p mq.ControlPacket, m *model.Packet) { c(p).SetReasonCode(mq.ReasonCode(m.ReasonCode)) }),
			sc("SetReasonString", func(m *model.Packet) bool { return m.ReasonString == "" }, func(p mq.ControlPacket, m *model.Packet) { c(p).SetReasonString(m.ReasonString) }),
			sc("SetAuthMethod", func(m *model.Packet) bool { return m.AuthMethod == "" }, func(p mq.ControlPacket, m *model.Packet) { c(p).SetAuthMethod(m.AuthMethod) }),
			sc("SetAuthData", func(m *model.Packet) bool { return len(m.AuthData) == 0 }, func(p mq.ControlPacket, m *model.Packet) { c(p).SetAuthData(bin(m, m.AuthData)) }),
			userProps(func(p mq.ControlPacket) *mq.UserProperties { return &c(p).UserProperties }),
		}
	}
	return nil
}

// DisconnectHasSetters reports whether Disconnect has the three property
// setters (they exist only once DISCONNECT knows its properties).
func DisconnectHasSetters() bool {
	var p interface{} = mq.NewDisconnect()
	_, a := p.(setReasonString)
	_, b := p.(setSessionExpiry)
	_, c := p.(setServerReference)
	return a && b && c && DisconnectHasProps()
}

// Step is one call of Build's plan: setter index and, for adders, the element.
// Probe > 0 asks Build to run a read-only operation on the half-built packet
// right after this call (1 String, 2 WriteTo to io.Discard, 3 Dump,
// 4 WellFormed): encoders that cache derived state must survive that.
type Step struct {
	Setter int
	Elem   int
	Probe  int `json:",omitempty"`
	// Decoy: call the setter with the value of the decoy model instead; a
	// later step sets the real value (last write wins).
	Decoy bool `json:",omitempty"`
	// Copy: before this call the packet value is copied (q := *p) and the
	// construction goes on with the copy: the exported packet types are plain
	// structs, "template plus per-client fields" is ordinary Go.
	Copy bool `json:",omitempty"`
}

// Plan produces a call sequence for m: every list element in list order,
// every scalar once; scalars at zero are skipped when skipZero[i] is true.
// order gives sort keys that interleave the calls (list elements keep their
// relative order). Both slices may be shorter than needed (cyclic / default).
func Plan(m *model.Packet, order []int, skipZero []bool) []Step {
	ss := Setters(m.Type)
	type keyed struct {
		Step
		key, seq int
	}
	var ks []keyed
	k := 0
	next := func() int {
		if len(order) == 0 {
			return 0
		}
		v := order[k%len(order)]
		k++
		return v
	}
	for i, s := range ss {
		if s.IsList {
			// list elements get non-decreasing keys so they keep their order
			n := s.Len(m)
			last := 0
			for e := 0; e < n; e++ {
				kk := next()
				if kk < last {
					kk = last
				}
				last = kk
				ks = append(ks, keyed{Step{Setter: i, Elem: e}, kk, len(ks)})
			}
			continue
		}
		kk := next()
		if s.IsZero != nil && s.IsZero(m) && i < len(skipZero) && skipZero[i] {
			continue
		}
		if s.IsZero != nil && s.IsZero(m) && len(skipZero) == 0 {
			continue
		}
		ks = append(ks, keyed{Step{Setter: i}, kk, len(ks)})
	}
	// stable insertion sort by key
	for i := 1; i < len(ks); i++ {
		for j := i; j > 0 && ks[j].key < ks[j-1].key; j-- {
			ks[j], ks[j-1] = ks[j-1], ks[j]
		}
	}
	out := make([]Step, len(ks))
	for i, x := range ks {
		out[i] = x.Step
	}
	return out
}

// Build constructs the packet for m through the constructor and the planned
// setter calls. SetWillDelayInterval etc. are plain scalars; SetWill receives
// a freshly built will that is not touched afterwards.
func Build(m *model.Packet, plan []Step) mq.ControlPacket {
	return BuildDecoy(m, nil, plan)
}

// BuildDecoy is Build with a second model whose values are used by steps
// marked Decoy (scalar setters only; each is followed by the real call).
func BuildDecoy(m, decoy *model.Packet, plan []Step) mq.ControlPacket {
	p := NewPacket(int(m.Type))
	if StartFromZero {
		p = NewZero(int(m.Type))
	}
	ss := Setters(m.Type)
	for _, st := range plan {
		if st.Copy {
			p = CopyValue(p)
		}
		if st.Decoy {
			if decoy != nil && decoy.Type == m.Type && !ss[st.Setter].IsList {
				ss[st.Setter].Apply(p, decoy, 0)
			}
			continue
		}
		ss[st.Setter].Apply(p, m, st.Elem)
		Probe(p, st.Probe)
	}
	return p
}

// StartFromZero makes Build start from the zero value of the packet type
// (var p mq.PubAck) instead of the constructor's value. Set and cleared by the
// one check that uses it, on its own goroutine.
var StartFromZero bool

// CopyValue returns a pointer to a copy of the packet value p points to.
func CopyValue(p mq.ControlPacket) mq.ControlPacket {
	switch v := p.(type) {
	case *mq.Connect:
		c := *v
		return &c
	case *mq.ConnAck:
		c := *v
		return &c
	case *mq.Publish:
		c := *v
		return &c
	case *mq.PubAck:
		c := *v
		return &c
	case *mq.PubRec:
		c := *v
		return &c
	case *mq.PubRel:
		c := *v
		return &c
	case *mq.PubComp:
		c := *v
		return &c
	case *mq.Subscribe:
		c := *v
		return &c
	case *mq.SubAck:
		c := *v
		return &c
	case *mq.Unsubscribe:
		c := *v
		return &c
	case *mq.UnsubAck:
		c := *v
		return &c
	case *mq.PingReq:
		c := *v
		return &c
	case *mq.PingResp:
		c := *v
		return &c
	case *mq.Disconnect:
		c := *v
		return &c
	case *mq.Auth:
		c := *v
		return &c
	case *mq.Undefined:
		c := *v
		return &c
	}
	return p
}

// WithRepeats makes some scalar setter calls happen two or three times in a
// row with the same value (idempotent by the last-write-wins contract).
func WithRepeats(m *model.Packet, plan []Step, pick func(i int) int) []Step {
	ss := Setters(m.Type)
	var out []Step
	for i, st := range plan {
		out = append(out, st)
		if st.Decoy || ss[st.Setter].IsList {
			continue
		}
		for k := pick(i); k > 0; k-- {
			again := st
			again.Probe = 0
			out = append(out, again)
		}
	}
	return out
}

// WithDecoys inserts, for the scalar steps selected by pick, a decoy call of
// the same setter somewhere before the real call.
func WithDecoys(m *model.Packet, plan []Step, pick func(i int) (use bool, before int)) []Step {
	ss := Setters(m.Type)
	out := append([]Step(nil), plan...)
	for i := 0; i < len(plan); i++ {
		st := plan[i]
		if ss[st.Setter].IsList {
			continue
		}
		// a will and a subscription identifier cannot be taken back: a decoy
		// call is only sound when the real call sets a value as well
		if name := ss[st.Setter].Name; (name == "SetWill" && m.Will == nil) || (name == "SetSubscriptionID" && m.SubID < 0) {
			continue
		}
		use, before := pick(i)
		if !use {
			continue
		}
		// position of the real step in out
		pos := -1
		for j, o := range out {
			if !o.Decoy && o.Setter == st.Setter && o.Elem == st.Elem {
				pos = j
				break
			}
		}
		if pos < 0 {
			continue
		}
		at := pos - before
		if at < 0 {
			at = 0
		}
		d := Step{Setter: st.Setter, Decoy: true}
		out = append(out[:at], append([]Step{d}, out[at:]...)...)
	}
	return out
}

// Probe runs one read-only operation on p.
func Probe(p mq.ControlPacket, kind int) {
	switch kind {
	case 1:
		_ = p.String()
	case 2:
		_, _ = p.WriteTo(io.Discard)
	case 3:
		mq.Dump(io.Discard, p)
	case 4:
		if wf, ok := p.(mq.HasWellFormed); ok {
			_ = wf.WellFormed()
		}
	}
}

// BuildDefault uses the canonical order and skips zero-valued scalars.
func BuildDefault(m *model.Packet) mq.ControlPacket {
	return Build(m, Plan(m, nil, nil))
}

// bin copies a binary value for a setter call; an empty value is nil or, when
// the model says so, an empty non-nil slice (both are legal arguments).
// LastBin is the slice most recently handed to a binary setter by bin().
var LastBin []byte

// SetBytesField / GetBytesField reach the binary fields of a packet by the
// accessor's name (Password, AuthData, CorrelationData, Payload).
func SetBytesField(p mq.ControlPacket, name string, v []byte) bool {
	for _, f := range bytesFields(p) {
		if f.name == name {
			f.set(v)
			return true
		}
	}
	return false
}

func GetBytesField(p mq.ControlPacket, name string) ([]byte, bool) {
	for _, f := range bytesFields(p) {
		if f.name == name {
			return f.get(), true
		}
	}
	return nil, false
}

func bin(m *model.Packet, b []byte) (out []byte) {
	defer func() { LastBin = out }()
	return bin0(m, b)
}

func bin0(m *model.Packet, b []byte) []byte {
	if len(b) == 0 {
		if m.XEmptyNonNil {
			return []byte{}
		}
		return nil
	}
	return append([]byte{}, b...)
}

// ---- values handed from one packet to another ------------------------------

type bytesField struct {
	name string
	get  func() []byte
	set  func([]byte)
}

func bytesFields(p mq.ControlPacket) []bytesField {
	var out []bytesField
	if v, ok := p.(interface {
		Password() []byte
		SetPassword([]byte)
	}); ok {
		out = append(out, bytesField{"Password", v.Password, v.SetPassword})
	}
	if v, ok := p.(interface {
		AuthData() []byte
		SetAuthData([]byte)
	}); ok {
		out = append(out, bytesField{"AuthData", v.AuthData, v.SetAuthData})
	}
	if v, ok := p.(interface {
		CorrelationData() []byte
		SetCorrelationData([]byte)
	}); ok {
		out = append(out, bytesField{"CorrelationData", v.CorrelationData, v.SetCorrelationData})
	}
	if v, ok := p.(interface {
		Payload() []byte
		SetPayload([]byte)
	}); ok {
		out = append(out, bytesField{"Payload", v.Payload, v.SetPayload})
	}
	return out
}

// Transfer hands a value returned by an accessor of src to the matching
// setter of dst, the way a program forwards or republishes what it received:
// the filter list of a SUBSCRIBE to another SUBSCRIBE, or a binary field
// (password, authentication data, correlation data, payload) to a binary
// field of dst. It reports what it did ("" = nothing applicable). Nothing
// here writes to memory obtained from an accessor.
func Transfer(src, dst mq.ControlPacket, pick int) string {
	if pick < 0 {
		pick = -pick
	}
	ss, sok := src.(*mq.Subscribe)
	ds, dok := dst.(*mq.Subscribe)
	if sok && dok && len(ss.Filters()) > 0 {
		ds.AddFilters(ss.Filters()...)
		return "Filters"
	}
	var from []bytesField
	for _, f := range bytesFields(src) {
		if len(f.get()) > 0 {
			from = append(from, f)
		}
	}
	to := bytesFields(dst)
	if len(from) == 0 || len(to) == 0 {
		return ""
	}
	f, t := from[pick%len(from)], to[(pick/7)%len(to)]
	t.set(f.get())
	return f.name + "->" + t.name
}

// Filter names used by FollowUp.
const (
	FollowOwnFilter   = "fwd/own/#"
	FollowLaterFilter = "src/later/+"
)

// FollowUp continues after Transfer(src, dst, pick) == what: dst is given
// another value of its own (one more filter, or a replacement for the binary
// field), and for filter lists src gets one more filter as well.
func FollowUp(src, dst mq.ControlPacket, what string, pick int) {
	if pick < 0 {
		pick = -pick
	}
	if what == "Filters" {
		ds := dst.(*mq.Subscribe)
		ds.AddFilters(mq.NewTopicFilter(FollowOwnFilter, mq.OptQoS2))
		if ss := src.(*mq.Subscribe); ss != ds {
			ss.AddFilters(mq.NewTopicFilter(FollowLaterFilter, mq.OptNL))
		}
		return
	}
	to := bytesFields(dst)
	if len(to) == 0 {
		return
	}
	t := to[(pick/7)%len(to)]
	if pick%2 == 0 {
		t.set([]byte("rotated-value"))
	} else {
		t.set(nil)
	}
}

// ---- calls with values outside MQTT's ranges -------------------------------

// WildNames are setter calls whose Go parameter type is wider than the MQTT
// range of the field: a program can make them, so the resulting packet value
// is one "a program can hold" (C19), although it is outside the C01 domain.
var WildNames = []string{"SetSubscriptionID", "AddSubscriptionID", "SetQoS", "WillQoS", "SetMaxQoS", "SetProtocolVersion", "PubQoS"}

// Wild makes the named call with v on p if p has it; it reports whether it did.
func Wild(p mq.ControlPacket, name string, v int64) bool {
	switch name {
	case "SetSubscriptionID":
		if q, ok := p.(*mq.Subscribe); ok {
			q.SetSubscriptionID(int(v))
			return true
		}
	case "AddSubscriptionID":
		if q, ok := p.(*mq.Publish); ok {
			q.AddSubscriptionID(uint32(v))
			return true
		}
	case "SetQoS":
		if q, ok := p.(*mq.Publish); ok {
			q.SetQoS(uint8(v))
			return true
		}
	case "WillQoS":
		if q, ok := p.(*mq.Connect); ok {
			w := mq.NewPublish()
			w.SetTopicName("w")
			w.SetQoS(uint8(v))
			q.SetWill(w)
			return true
		}
	case "PubQoS":
		if q, ok := p.(*mq.Connect); ok {
			q.SetWill(mq.Pub(uint8(v), "w", "p"))
			return true
		}
	case "SetMaxQoS":
		if q, ok := p.(*mq.ConnAck); ok {
			q.SetMaxQoS(uint8(v))
			return true
		}
	case "SetProtocolVersion":
		if q, ok := p.(*mq.Connect); ok {
			q.SetProtocolVersion(uint8(v))
			return true
		}
	}
	return false
}

// WildFor returns the names of WildNames that apply to a packet type.
func WildFor(typ uint8) []string {
	switch typ {
	case model.PUBLISH:
		return []string{"AddSubscriptionID", "SetQoS"}
	case model.CONNECT:
		return []string{"WillQoS", "PubQoS", "SetProtocolVersion"}
	case model.CONNACK:
		return []string{"SetMaxQoS"}
	case model.SUBSCRIBE:
		return []string{"SetSubscriptionID"}
	}
	return nil
}

// AppendOne appends one element, marked with tag, to one of the lists of p
// through its public adder (which list: pick among those the type has). m must
// be the current accessor snapshot of p; it is updated to what the accessors
// have to report afterwards. It returns the adder's name ("" = no list).
func AppendOne(p mq.ControlPacket, m *model.Packet, tag string, pick int) string {
	var lists []Setter
	for _, s := range Setters(m.Type) {
		if s.IsList {
			lists = append(lists, s)
		}
	}
	if len(lists) == 0 {
		return ""
	}
	if pick < 0 {
		pick = -pick
	}
	s := lists[pick%len(lists)]
	switch s.Name {
	case "AddUserProp":
		m.UserProps = append(m.UserProps, model.KV{K: tag, V: "v-" + tag})
	case "AddSubscriptionID":
		m.SubIDs = append(m.SubIDs, uint32(7000+len(tag)*13+int(tag[len(tag)-1])))
	case "AddFilters":
		m.Filters = append(m.Filters, model.Filter{Filter: tag + "/#", Opts: 1})
	case "AddFilter":
		m.UnsubFilters = append(m.UnsubFilters, tag+"/+")
	case "AddReasonCode":
		m.ReasonCodes = append(m.ReasonCodes, 0x80+uint8(tag[len(tag)-1]&7))
	default:
		return ""
	}
	s.Apply(p, m, s.Len(m)-1)
	return s.Name
}

// TweakOne changes one thing on p through a public setter or adder (which
// one: pick among those the type has) and updates the accessor snapshot m
// accordingly: what a bridge does to a packet it received before it sends it
// on. It returns the setter's name ("" = nothing applicable).
func TweakOne(p mq.ControlPacket, m *model.Packet, pick int) string {
	if pick < 0 {
		pick = -pick
	}
	var names []string
	byName := map[string]Setter{}
	for _, s := range Setters(m.Type) {
		byName[s.Name] = s
		switch {
		case s.IsList:
			names = append(names, "list:"+s.Name)
		case s.Name == "SetPacketID" && m.PacketID != 0,
			s.Name == "SetReasonString", s.Name == "SetPayload", s.Name == "SetClientID",
			s.Name == "SetContentType", s.Name == "SetResponseTopic":
			names = append(names, s.Name)
		}
	}
	if len(names) == 0 {
		return ""
	}
	n := names[pick%len(names)]
	if len(n) > 5 && n[:5] == "list:" {
		return AppendOne(p, m, "fwd", pick/len(names))
	}
	switch n {
	case "SetPacketID":
		m.PacketID ^= 0x0101
		if m.PacketID == 0 {
			m.PacketID = 0x0101
		}
	case "SetReasonString":
		m.ReasonString = grown(m.ReasonString, "+fwd")
	case "SetPayload":
		m.Payload = append(append([]byte(nil), m.Payload...), 'F')
	case "SetClientID":
		m.ClientID = grown(m.ClientID, "f")
	case "SetContentType":
		m.ContentType = grown(m.ContentType, "f")
	case "SetResponseTopic":
		m.ResponseTopic = grown(m.ResponseTopic, "f")
	}
	byName[n].Apply(p, m, 0)
	return n
}

// grown appends suffix while the result stays inside MQTT's 65 535-byte
// string limit, otherwise it returns a short other value.
func grown(s, suffix string) string {
	if len(s)+len(suffix) <= 65535 {
		return s + suffix
	}
	return "fwd" + suffix
}
