// Package api connects the abstract model to the library under test, using
// nothing but the library's public API: Build applies constructors and
// setters, Observe reads every public accessor.
package api

import (
	"bytes"
	"fmt"

	"github.com/gregoryv/mq"

	"verif/harness/model"
)

// TypeOf returns the packet type number for the dynamic type of p, or -1.
func TypeOf(p mq.ControlPacket) int {
	switch p.(type) {
	case *mq.Undefined:
		return model.UNDEFINED
	case *mq.Connect:
		return model.CONNECT
	case *mq.ConnAck:
		return model.CONNACK
	case *mq.Publish:
		return model.PUBLISH
	case *mq.PubAck:
		return model.PUBACK
	case *mq.PubRec:
		return model.PUBREC
	case *mq.PubRel:
		return model.PUBREL
	case *mq.PubComp:
		return model.PUBCOMP
	case *mq.Subscribe:
		return model.SUBSCRIBE
	case *mq.SubAck:
		return model.SUBACK
	case *mq.Unsubscribe:
		return model.UNSUBSCRIBE
	case *mq.UnsubAck:
		return model.UNSUBACK
	case *mq.PingReq:
		return model.PINGREQ
	case *mq.PingResp:
		return model.PINGRESP
	case *mq.Disconnect:
		return model.DISCONNECT
	case *mq.Auth:
		return model.AUTH
	}
	return -1
}

// NewZero returns a pointer to a zero value (not the constructor's value) of
// the exported packet type with the given number.
func NewZero(typ int) mq.ControlPacket {
	switch typ {
	case model.UNDEFINED:
		return &mq.Undefined{}
	case model.CONNECT:
		return &mq.Connect{}
	case model.CONNACK:
		return &mq.ConnAck{}
	case model.PUBLISH:
		return &mq.Publish{}
	case model.PUBACK:
		return &mq.PubAck{}
	case model.PUBREC:
		return &mq.PubRec{}
	case model.PUBREL:
		return &mq.PubRel{}
	case model.PUBCOMP:
		return &mq.PubComp{}
	case model.SUBSCRIBE:
		return &mq.Subscribe{}
	case model.SUBACK:
		return &mq.SubAck{}
	case model.UNSUBSCRIBE:
		return &mq.Unsubscribe{}
	case model.UNSUBACK:
		return &mq.UnsubAck{}
	case model.PINGREQ:
		return &mq.PingReq{}
	case model.PINGRESP:
		return &mq.PingResp{}
	case model.DISCONNECT:
		return &mq.Disconnect{}
	case model.AUTH:
		return &mq.Auth{}
	}
	return nil
}

// NewPacket calls the public constructor of the type.
func NewPacket(typ int) mq.ControlPacket {
	switch typ {
	case model.CONNECT:
		return mq.NewConnect()
	case model.CONNACK:
		return mq.NewConnAck()
	case model.PUBLISH:
		return mq.NewPublish()
	case model.PUBACK:
		return mq.NewPubAck()
	case model.PUBREC:
		return mq.NewPubRec()
	case model.PUBREL:
		return mq.NewPubRel()
	case model.PUBCOMP:
		return mq.NewPubComp()
	case model.SUBSCRIBE:
		return mq.NewSubscribe()
	case model.SUBACK:
		return mq.NewSubAck()
	case model.UNSUBSCRIBE:
		return mq.NewUnsubscribe()
	case model.UNSUBACK:
		return mq.NewUnsubAck()
	case model.PINGREQ:
		return mq.NewPingReq()
	case model.PINGRESP:
		return mq.NewPingResp()
	case model.DISCONNECT:
		return mq.NewDisconnect()
	case model.AUTH:
		return mq.NewAuth()
	}
	return &mq.Undefined{}
}

func kvs(u mq.UserProperties) []model.KV {
	if len(u) == 0 {
		return nil
	}
	out := make([]model.KV, len(u))
	for i, p := range u {
		out[i] = model.KV{K: p[0], V: p[1]}
	}
	return out
}

func cp(b []byte) []byte {
	if len(b) == 0 {
		return nil
	}
	return append([]byte{}, b...)
}

func observeWill(w *mq.Publish) *model.Will {
	if w == nil {
		return nil
	}
	return &model.Will{
		Topic:           w.TopicName(),
		Payload:         cp(w.Payload()),
		QoS:             w.QoS(),
		Retain:          w.Retain(),
		PayloadFormat:   w.PayloadFormat(),
		MessageExpiry:   w.MessageExpiryInterval(),
		ContentType:     w.ContentType(),
		ResponseTopic:   w.ResponseTopic(),
		CorrelationData: cp(w.CorrelationData()),
		UserProps:       kvs(w.UserProperties),
	}
}

// Optional accessors that only exist once DISCONNECT knows its properties.
type hasReasonString interface{ ReasonString() string }
type hasSessionExpiry interface{ SessionExpiryInterval() uint32 }
type hasServerReference interface{ ServerReference() string }

// Observe reads every public accessor of p into a model value (deep copy).
// Will-QoS and the other flag bits are read through HasFlag, bit by bit.
func Observe(p mq.ControlPacket) model.Packet {
	m := model.Packet{}
	switch p := p.(type) {
	case *mq.Undefined:
		m.Type = model.UNDEFINED
		m.Data = cp(p.Data())
	case *mq.Connect:
		m.Type = model.CONNECT
		for bit := 0; bit < 8; bit++ {
			if p.HasFlag(1 << bit) {
				m.CFlags |= 1 << bit
			}
		}
		m.ProtocolName = p.ProtocolName()
		m.ProtocolVersion = p.ProtocolVersion()
		m.CleanStart = p.CleanStart()
		m.KeepAlive = p.KeepAlive()
		m.ClientID = p.ClientID()
		m.HasUsername = p.HasFlag(mq.UsernameFlag)
		m.Username = p.Username()
		m.HasPassword = p.HasFlag(mq.PasswordFlag)
		m.Password = cp(p.Password())
		m.Will = observeWill(p.Will())
		m.WillDelay = p.WillDelayInterval()
		m.SessionExpiry = p.SessionExpiryInterval()
		m.ReceiveMax = p.ReceiveMax()
		m.MaxPacketSize = p.MaxPacketSize()
		m.TopicAliasMax = p.TopicAliasMax()
		m.RequestResponseInfo = p.RequestResponseInfo()
		m.RequestProblemInfo = p.RequestProblemInfo()
		m.AuthMethod = p.AuthMethod()
		m.AuthData = cp(p.AuthData())
		m.UserProps = kvs(p.UserProperties)
	case *mq.ConnAck:
		m.Type = model.CONNACK
		for bit := 0; bit < 8; bit++ {
			if p.HasFlag(1 << bit) {
				m.AckFlags |= 1 << bit
			}
		}
		m.SessionPresent = p.SessionPresent()
		m.ReasonCode = uint8(p.ReasonCode())
		m.ReasonString = p.ReasonString()
		m.SessionExpiry = p.SessionExpiryInterval()
		m.ReceiveMax = p.ReceiveMax()
		m.MaxQoS = p.MaxQoS()
		m.RetainAvailable = p.RetainAvailable()
		m.MaxPacketSize = p.MaxPacketSize()
		m.AssignedClientID = p.AssignedClientID()
		m.TopicAliasMax = p.TopicAliasMax()
		m.WildcardSubAvail = p.WildcardSubAvailable()
		m.SubIDsAvail = p.SubIdentifiersAvailable()
		m.SharedSubAvail = p.SharedSubAvailable()
		m.ServerKeepAlive = p.ServerKeepAlive()
		m.ResponseInformation = p.ResponseInformation()
		m.ServerReference = p.ServerReference()
		m.AuthMethod = p.AuthMethod()
		m.AuthData = cp(p.AuthData())
		m.UserProps = kvs(p.UserProperties)
	case *mq.Publish:
		m.Type = model.PUBLISH
		m.Dup = p.Duplicate()
		m.QoS = p.QoS()
		m.Retain = p.Retain()
		m.TopicName = p.TopicName()
		m.PacketID = p.PacketID()
		m.PayloadFormat = p.PayloadFormat()
		m.MessageExpiry = p.MessageExpiryInterval()
		m.TopicAlias = p.TopicAlias()
		m.ResponseTopic = p.ResponseTopic()
		m.CorrelationData = cp(p.CorrelationData())
		m.ContentType = p.ContentType()
		m.SubIDs = append([]uint32(nil), p.SubscriptionIDs()...)
		m.Payload = cp(p.Payload())
		m.UserProps = kvs(p.UserProperties)
	case *mq.PubAck:
		m.Type = model.PUBACK
		m.PacketID, m.ReasonCode, m.ReasonString = p.PacketID(), uint8(p.ReasonCode()), p.ReasonString()
		m.UserProps = kvs(p.UserProperties)
	case *mq.PubRec:
		m.Type = model.PUBREC
		m.PacketID, m.ReasonCode, m.ReasonString = p.PacketID(), uint8(p.ReasonCode()), p.ReasonString()
		m.UserProps = kvs(p.UserProperties)
	case *mq.PubRel:
		m.Type = model.PUBREL
		m.PacketID, m.ReasonCode, m.ReasonString = p.PacketID(), uint8(p.ReasonCode()), p.ReasonString()
		m.UserProps = kvs(p.UserProperties)
	case *mq.PubComp:
		m.Type = model.PUBCOMP
		m.PacketID, m.ReasonCode, m.ReasonString = p.PacketID(), uint8(p.ReasonCode()), p.ReasonString()
		m.UserProps = kvs(p.UserProperties)
	case *mq.Subscribe:
		m.Type = model.SUBSCRIBE
		m.PacketID = p.PacketID()
		m.SubID = p.SubscriptionID()
		for _, f := range p.Filters() {
			f := f
			m.Filters = append(m.Filters, model.Filter{Filter: f.Filter(), Opts: uint8(f.Options())})
		}
		m.UserProps = kvs(p.UserProperties)
	case *mq.SubAck:
		m.Type = model.SUBACK
		m.PacketID, m.ReasonString = p.PacketID(), p.ReasonString()
		m.ReasonCodes = append([]uint8(nil), p.ReasonCodes()...)
		m.UserProps = kvs(p.UserProperties)
	case *mq.Unsubscribe:
		m.Type = model.UNSUBSCRIBE
		m.PacketID = p.PacketID()
		m.UnsubFilters = append([]string(nil), p.Filters()...)
		m.UserProps = kvs(p.UserProperties)
	case *mq.UnsubAck:
		m.Type = model.UNSUBACK
		m.PacketID, m.ReasonString = p.PacketID(), p.ReasonString()
		m.ReasonCodes = append([]uint8(nil), p.ReasonCodes()...)
		m.UserProps = kvs(p.UserProperties)
	case *mq.PingReq:
		m.Type = model.PINGREQ
	case *mq.PingResp:
		m.Type = model.PINGRESP
	case *mq.Disconnect:
		m.Type = model.DISCONNECT
		m.ReasonCode = uint8(p.ReasonCode())
		if a, ok := interface{}(p).(hasReasonString); ok {
			m.ReasonString = a.ReasonString()
		}
		if a, ok := interface{}(p).(hasSessionExpiry); ok {
			m.SessionExpiry = a.SessionExpiryInterval()
		}
		if a, ok := interface{}(p).(hasServerReference); ok {
			m.ServerReference = a.ServerReference()
		}
		m.UserProps = kvs(p.UserProperties)
	case *mq.Auth:
		m.Type = model.AUTH
		m.ReasonCode = uint8(p.ReasonCode())
		m.ReasonString = p.ReasonString()
		m.AuthMethod = p.AuthMethod()
		m.AuthData = cp(p.AuthData())
		m.UserProps = kvs(p.UserProperties)
	default:
		panic(fmt.Sprintf("Observe: unknown packet type %T", p))
	}
	return m
}

// Encode writes p into a fresh buffer through WriteTo.
func Encode(p mq.ControlPacket) ([]byte, int64, error) {
	var buf bytes.Buffer
	n, err := p.WriteTo(&buf)
	return buf.Bytes(), n, err
}

// DisconnectHasProps reports whether the library's Disconnect type exposes the
// reason string / session expiry / server reference accessors.
func DisconnectHasProps() bool {
	var p interface{} = mq.NewDisconnect()
	_, a := p.(hasReasonString)
	_, b := p.(hasSessionExpiry)
	_, c := p.(hasServerReference)
	return a && b && c
}
