package props

import (
	"encoding/json"
	"fmt"
	"testing"

	"github.com/gregoryv/mq"
	"pgregory.net/rapid"

	"verif/harness/guard"
	"verif/harness/vf"
)

// C04 — decoding never panics; ReadPacket returns exactly one of
// (packet, nil) / (nil, error).

// checkC04 runs one entry point on one byte string.
func checkC04(entry string, frame []byte) (accepted bool, sig, msg string) {
	p, err, pan := decodeVia(entry, frame)
	if pan != nil {
		return false, "panic:" + panicSite(pan), fmt.Sprintf("%s panicked on %s: %v\n%s", entry, hx(frame), pan.Value, pan.Stack)
	}
	if entry == "ReadPacket" || entry == "ReadPacket1" {
		if isNilPacket(p) == (err == nil) {
			return false, "both-or-neither", fmt.Sprintf("%s on %s returned packet=%v err=%v: exactly one must be nil", entry, hx(frame), p, err)
		}
	}
	return err == nil, "", ""
}

func isNilPacket(p mq.ControlPacket) bool { return p == nil }

// panicSite extracts the first library frame of a panic stack as signature.
func panicSite(p *guard.Panic) string {
	return firstRepoFrame(p.Stack)
}

func c04Entries(t *rapid.T, frame []byte) []string {
	entries := []string{"ReadPacket"}
	if len(frame) > 0 {
		entries = append(entries, fmt.Sprintf("Unmarshal:%d", frame[0]>>4))
	}
	other := rapid.IntRange(0, 15).Draw(t, "othertype")
	if k := rapid.IntRange(0, 3).Draw(t, "usenew"); k == 0 {
		entries = append(entries, fmt.Sprintf("UnmarshalNew:%d", other))
	} else if k == 1 && len(frame) > 0 {
		entries = append(entries, fmt.Sprintf("UnmarshalUsed:%d", frame[0]>>4))
	} else {
		entries = append(entries, fmt.Sprintf("Unmarshal:%d", other))
	}
	if rapid.IntRange(0, 3).Draw(t, "bytewise") == 0 {
		entries = append(entries, "ReadPacket1")
	}
	return entries
}

func replayFrameCases(t *testing.T, r *vf.Rec, check func(entry string, frame []byte) (bool, string, string)) {
	for _, rf := range r.LoadReplays(t) {
		var c caseFrame
		if err := json.Unmarshal(rf.Case, &c); err != nil {
			t.Fatalf("replay %s: %v", rf.Source, err)
		}
		entry := c.Entry
		if entry == "" || len(entry) > 4 && entry[:4] == "Fuzz" {
			entry = "ReadPacket"
		}
		var sent *sentinels
		if c.Note == "sentinel" {
			sent = newSentinels()
		}
		hist := replayHistory(c.History)
		_, _, msg := check(entry, c.Frame)
		if msg == "" && len(c.Base) > 0 {
			_, msg = inflationCost(c.Base, c.Frame)
		}
		if sent != nil && msg == "" {
			msg = sent.check()
		}
		if msg == "" {
			msg = hist.check()
		}
		r.Case(vf.FPs("replay", entry, string(c.Frame)), true, "replay", func() interface{} { return c })
		if msg != "" {
			r.FailReplay(rf, "%s", msg)
		}
	}
}

func TestC04(t *testing.T) {
	curProp = "C04"
	r := vf.NewRec("C04")
	defer r.Finish(t)
	guard.StartWatchdog(*vf.Out, vf.Label("C04"))

	replayFrameCases(t, r, checkC04)
	if vf.ReplayOnly() {
		return
	}

	r.Rapid(t, "hostile", vf.N(40000, 5000000), func(t *rapid.T) {
		frame, kind := genHostileFrame(t)
		for _, entry := range c04Entries(t, frame) {
			accepted, sig, msg := checkC04(entry, frame)
			class := kind + "/rejected"
			if accepted {
				class = kind + "/accepted"
			}
			r.Case(vf.FPs(entry, string(frame)), true, class, func() interface{} {
				return caseFrame{Frame: frame, Entry: entry, Note: class}
			})
			if msg != "" {
				r.Fail("decode", caseFrame{Frame: frame, Entry: entry, Note: kind}, sig, "%s", msg)
				t.Fatalf("%s", msg)
			}
		}
	})
}

// FuzzReadPacket is the native coverage-guided target for ReadPacket.
func FuzzReadPacket(f *testing.F) {
	for _, s := range fuzzSeeds() {
		f.Add(s)
	}
	f.Fuzz(func(t *testing.T, data []byte) {
		if _, sig, msg := checkC04("ReadPacket", data); msg != "" {
			t.Fatalf("%s: %s", sig, msg)
		}
		if _, sig, msg := checkC04("ReadPacket1", data); msg != "" {
			t.Fatalf("%s: %s", sig, msg)
		}
	})
}

// FuzzUnmarshal: the first input byte selects the packet type.
func FuzzUnmarshal(f *testing.F) {
	for _, s := range fuzzSeeds() {
		f.Add(s)
	}
	f.Fuzz(func(t *testing.T, data []byte) {
		if len(data) == 0 {
			return
		}
		typ := int(data[0] >> 4)
		frame := append([]byte{data[0], 0}, data[1:]...)
		if _, sig, msg := checkC04(fmt.Sprintf("Unmarshal:%d", typ), frame); msg != "" {
			t.Fatalf("%s: %s", sig, msg)
		}
	})
}
