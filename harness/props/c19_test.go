package props

import (
	"encoding/json"
	"fmt"
	"io"
	"testing"

	"github.com/gregoryv/mq"
	"pgregory.net/rapid"

	"verif/harness/api"
	"verif/harness/guard"
	"verif/harness/model"
	"verif/harness/ref"
	"verif/harness/vf"
)

// C19 — String and Dump are total on every packet value.

type caseC19 struct {
	Origin string   `json:"origin"` // "zero:<n>", "new:<n>", "decode", "halfdecode:<n>", "steps"
	Frame  Hex      `json:"frame,omitempty"`
	Steps  *caseC12 `json:"steps,omitempty"`
	Prefix int      `json:"prefix,omitempty"`
	// Wild: calls made after the steps whose argument is outside MQTT's range
	// for the field but inside the Go parameter type (SetSubscriptionID(-1),
	// SetQoS(200), ...): such packets are values a program can hold.
	Wild []wildC19 `json:"wild,omitempty"`
}

type wildC19 struct {
	Name string `json:"name"`
	V    int64  `json:"v"`
}

// c19InFlight is the case being rendered, for the watchdog.
var c19InFlight caseC19

func renderTotal(p mq.ControlPacket) (sig, msg string) {
	var s string
	render := func() []byte {
		return mustJSON(vf.Failure{Property: "C19", Kind: "hang", Case: mustJSON(c19InFlight), Signature: "hang", Message: "String/Dump did not return"})
	}
	if pan := guard.Watched(1<<16, render, func() { s = p.String() }); pan != nil {
		return "string-panic:" + panicSite(pan), fmt.Sprintf("%T.String() panicked: %v\n%s", p, pan.Value, pan.Stack)
	}
	_ = s
	if pan := guard.Watched(1<<16, render, func() { mq.Dump(io.Discard, p) }); pan != nil {
		return "dump-panic:" + panicSite(pan), fmt.Sprintf("Dump(%T) panicked: %v\n%s", p, pan.Value, pan.Stack)
	}
	if wf, ok := p.(mq.HasWellFormed); ok {
		if pan := guard.Call(func() {
			if e := wf.WellFormed(); e != nil {
				_ = e.Error()
			}
		}); pan != nil {
			return "wellformed-panic:" + panicSite(pan), fmt.Sprintf("%T.WellFormed() panicked: %v", p, pan.Value)
		}
	}
	return "", ""
}

func checkC19(c caseC19) (sig, msg string) {
	c19InFlight = c
	var n int
	switch {
	case scan(c.Origin, "zero:%d", &n):
		return renderTotal(api.NewZero(n))
	case scan(c.Origin, "new:%d", &n):
		return renderTotal(api.NewPacket(n))
	case c.Origin == "decode":
		p, err, pan := read(c.Frame)
		if pan != nil || err != nil || p == nil {
			return "", ""
		}
		return renderTotal(p)
	case scan(c.Origin, "halfdecode:%d", &n):
		v := api.NewZero(n)
		_, _, body, ok := ref.Split(c.Frame)
		if !ok {
			body = c.Frame
		}
		guard.Call(func() { _ = v.UnmarshalBinary(append([]byte(nil), body...)) })
		return renderTotal(v)
	case c.Origin == "steps":
		ss := api.Setters(c.Steps.Type)
		byName := map[string]api.Setter{}
		for _, s := range ss {
			byName[s.Name] = s
		}
		p := api.NewPacket(int(c.Steps.Type))
		for i, st := range c.Steps.Steps {
			if i >= c.Prefix {
				break
			}
			m, err := unpackModel(st.AfterGob)
			if err != nil {
				return "harness", err.Error()
			}
			byName[st.Setter].Apply(p, &m, st.Index)
			if sig, msg := renderTotal(p); msg != "" {
				return sig, msg
			}
		}
		for _, w := range c.Wild {
			var did bool
			if pan := guard.Call(func() { did = api.Wild(p, w.Name, w.V) }); pan != nil {
				return "", "" // the setter itself refuses the value: not a rendering matter
			}
			if did {
				if sig, msg := renderTotal(p); msg != "" {
					return sig, msg
				}
			}
		}
		return renderTotal(p)
	}
	return "harness", "harness: unknown origin " + c.Origin
}

func scan(s, format string, n *int) bool {
	_, err := fmt.Sscanf(s, format, n)
	return err == nil
}

func TestC19(t *testing.T) {
	curProp = "C19"
	r := vf.NewRec("C19")
	defer r.Finish(t)
	guard.StartWatchdog(*vf.Out, vf.Label("C19"))

	for _, rf := range r.LoadReplays(t) {
		var c caseC19
		if err := json.Unmarshal(rf.Case, &c); err != nil {
			t.Fatalf("replay %s: %v", rf.Source, err)
		}
		_, msg := checkC19(c)
		r.Case(vf.FPs("replay", string(rf.Case)), true, "replay", func() interface{} { return c.Origin })
		if msg != "" {
			r.FailReplay(rf, "%s", msg)
		}
	}
	if vf.ReplayOnly() {
		return
	}
	report := func(c caseC19, sig, msg string) {
		r.Fail("render", c, sig, "%s", msg)
	}

	if *vf.Shard == 0 {
		// (i) zero values and constructor values of every exported type
		for n := 0; n <= 15; n++ {
			for _, o := range []string{"zero", "new"} {
				c := caseC19{Origin: fmt.Sprintf("%s:%d", o, n)}
				sig, msg := checkC19(c)
				r.Case(vf.FPs(c.Origin), o == "zero", "value/"+o, func() interface{} { return c.Origin })
				if msg != "" {
					report(c, sig, msg)
				}
			}
		}
		// other exported types with String / Error
		for _, f := range []func(){
			func() { _ = mq.TopicFilter{}.String() },
			func() { var tf mq.TopicFilter; _ = tf.WellFormed() },
			func() { _ = mq.UserProp{}.String() },
			func() { _ = (&mq.Malformed{}).Error() },
			func() { var u mq.UserProperties; u.AddUserProp() },
			func() { mq.Dump(io.Discard, nil) }, // the zero value of the interface type, what a failed ReadPacket leaves
		} {
			if pan := guard.Call(f); pan != nil {
				report(caseC19{Origin: "zero:other"}, "other-panic:"+panicSite(pan), fmt.Sprintf("zero value of an exported type panicked: %v\n%s", pan.Value, pan.Stack))
			}
			r.Case(vf.FPs("other", fmt.Sprint(r.ClassCount("value/other"))), true, "value/other", nil)
		}
		// (iv) all 256 values of every rendered byte
		for b := 0; b < 256; b++ {
			b := byte(b)
			if pan := guard.Call(func() { _ = mq.ReasonCode(b).String() }); pan != nil {
				report(caseC19{Origin: fmt.Sprintf("reasoncode:%d", b)}, "reasoncode-string", fmt.Sprintf("ReasonCode(%d).String() panicked: %v", b, pan.Value))
			}
			if pan := guard.Call(func() { _ = mq.NewTopicFilter("a", mq.Opt(b)).String() }); pan != nil {
				report(caseC19{Origin: fmt.Sprintf("opt:%d", b)}, "opt-string", fmt.Sprintf("TopicFilter with options %d: String() panicked: %v", b, pan.Value))
			}
			r.Case(vf.FPs("byte", fmt.Sprint(b)), true, "rendered-byte/reasoncode+subscription-options", nil)
			frames := [][]byte{
				{b, 0},                           // first byte
				{0x40, 3, 0, 1, b},               // PUBACK reason code
				{0x50, 3, 0, 1, b},               // PUBREC reason code
				{0x62, 3, 0, 1, b},               // PUBREL
				{0x70, 3, 0, 1, b},               // PUBCOMP
				{0x20, 3, b, 0, 0},               // CONNACK flags
				{0x20, 3, 0, b, 0},               // CONNACK reason code
				{0xe0, 1, b},                     // DISCONNECT reason code
				{0xf0, 2, b, 0},                  // AUTH reason code
				{0x90, 4, 0, 1, 0, b},            // SUBACK reason code
				{0xb0, 4, 0, 1, 0, b},            // UNSUBACK reason code
				{0x82, 7, 0, 1, 0, 0, 1, 'a', b}, // SUBSCRIBE options
			}
			// CONNECT with every flag byte and a body consistent with it
			cb := []byte{0, 4, 'M', 'Q', 'T', 'T', 5, b, 0, 0, 0, 0, 0}
			if b&4 != 0 {
				cb = append(cb, 0, 0, 1, 'w', 0, 1, 'p')
			}
			if b&0x80 != 0 {
				cb = append(cb, 0, 1, 'u')
			}
			if b&0x40 != 0 {
				cb = append(cb, 0, 1, 's')
			}
			frames = append(frames, ref.Reframe(0x10, cb))
			for _, f := range frames {
				c := caseC19{Origin: "decode", Frame: f}
				sig, msg := checkC19(c)
				r.Case(vf.FP(f), true, "rendered-byte/decoded", func() interface{} { return c })
				if msg != "" {
					report(c, sig, msg)
				}
			}
		}
		r.Exhaustive("all 256 values of: ReasonCode.String, subscription options, first byte, CONNECT flags (consistent body), CONNACK flags, reason code of every acknowledging packet type")
	}

	// (iii) packets decoded from arbitrary bytes, and half-filled values left
	// behind by a failing UnmarshalBinary
	r.Rapid(t, "decoded", vf.N(24000, 6000000), func(t *rapid.T) {
		frame, kind := genHostileFrame(t)
		if rapid.IntRange(0, 3).Draw(t, "valid") == 0 {
			_, frame, _, _ = genValidFrame(t, false)
			kind = "valid"
		}
		c := caseC19{Origin: "decode", Frame: frame}
		sig, msg := checkC19(c)
		r.Case(vf.FPs("decode", string(frame)), true, "decoded/"+kind, func() interface{} { return c })
		if msg != "" {
			report(c, sig, msg)
			t.Fatalf("%s", msg)
		}
		n := rapid.IntRange(0, 15).Draw(t, "type")
		if rapid.Bool().Draw(t, "owntype") && len(frame) > 0 {
			n = int(frame[0] >> 4)
		}
		c = caseC19{Origin: fmt.Sprintf("halfdecode:%d", n), Frame: frame}
		sig, msg = checkC19(c)
		r.Case(vf.FPs(c.Origin, string(frame)), true, "half-decoded/"+kind, func() interface{} { return c })
		if msg != "" {
			report(c, sig, msg)
			t.Fatalf("%s", msg)
		}
	})

	// (ii) packets under construction: every prefix of setter sequences
	r.Rapid(t, "under-construction", vf.N(12000, 800000), func(t *rapid.T) {
		typ := uint8(rapid.IntRange(1, 15).Draw(t, "type"))
		switch rapid.IntRange(0, 7).Draw(t, "richtype") {
		case 0, 1:
			typ = model.PUBLISH // the types with the most setters and renderings
		case 2:
			typ = model.CONNECT
		}
		ss := api.Setters(typ)
		if len(ss) == 0 {
			return
		}
		n := rapid.IntRange(1, 12).Draw(t, "steps")
		m := model.New(typ)
		cs := caseC12{Type: typ}
		for i := 0; i < n; i++ {
			s := ss[rapid.IntRange(0, len(ss)-1).Draw(t, "setter")]
			mutateField(t, &m, s.Name)
			idx := 0
			if s.IsList {
				idx = listLenOf(&m, s.Name) - 1
			}
			cs.Steps = append(cs.Steps, stepC12{Setter: s.Name, Index: idx, AfterGob: packModel(m), After: m.String()})
		}
		c := caseC19{Origin: "steps", Steps: &cs, Prefix: n}
		class := "under-construction/"
		if len(api.WildFor(typ)) > 0 && rapid.IntRange(0, 1).Draw(t, "wild") == 0 {
			for k := rapid.IntRange(1, 3).Draw(t, "nwild"); k > 0; k-- {
				c.Wild = append(c.Wild, wildC19{
					Name: rapid.SampledFrom(api.WildFor(typ)).Draw(t, "wildname"),
					V:    rapid.SampledFrom([]int64{-1, -2, 0, 3, 4, 127, 128, 200, 255, 268435455, 268435456, 1 << 31, 1<<32 - 1, 1 << 35, 1 << 40, 1<<63 - 1, -1 << 63}).Draw(t, "wildv"),
				})
			}
			class = "under-construction+out-of-range-arguments/"
		}
		sig, msg := checkC19(c)
		r.Evals(int64(n))
		r.Case(vf.FPs("steps", fmt.Sprint(cs.Steps), fmt.Sprint(c.Wild)), true, class+typeName(typ), func() interface{} {
			return map[string]interface{}{"type": typeName(typ), "setter_calls": n, "state": m.String(), "then": c.Wild}
		})
		if msg != "" {
			report(c, sig, msg)
			t.Fatalf("%s", msg)
		}
	})
}
