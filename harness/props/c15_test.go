package props

import (
	"bytes"
	"encoding/json"
	"fmt"
	"runtime"
	"runtime/debug"
	"sync"
	"sync/atomic"
	"testing"

	"github.com/gregoryv/mq"
	"pgregory.net/rapid"

	"verif/harness/api"
	"verif/harness/guard"
	"verif/harness/model"
	"verif/harness/ref"
	"verif/harness/vf"
)

// C15 — variable byte integers are encoded minimally and decoded exactly.
// Through the verif-tagged wrappers: the encoder, the in-memory decoder and
// the streaming decoder, against the reference algorithm of spec 1.5.5.

type caseC15 struct {
	Value *uint32 `json:"value,omitempty"` // encode + round trip of a value
	Seq   Hex     `json:"seq,omitempty"`   // decoder agreement on a byte sequence
	Note  string  `json:"note,omitempty"`  // found by the use-site stage (re-run as a whole on replay)
}

type vbiWorker struct {
	buf [8]byte
	rd  bytes.Reader
}

// checkValue: the encoder writes the unique minimal form, both decoders
// return the value and advance by exactly those bytes.
func (w *vbiWorker) checkValue(v uint32) string {
	want := ref.VBI(v)
	n := mq.VerifVBIFill(v, w.buf[:])
	if n != len(want) || !bytes.Equal(w.buf[:n], want) {
		return fmt.Sprintf("value %d encoded as %x (width %d), minimal form is %x", v, w.buf[:min(n, 8)], n, want)
	}
	if wd := mq.VerifVBIWidth(v); wd != len(want) {
		return fmt.Sprintf("value %d: width() = %d, minimal form has %d bytes", v, wd, len(want))
	}
	// decode with trailing bytes behind the integer
	w.buf[n], w.buf[n+1] = 0xff, 0x01
	got, adv, err := mq.VerifVBIDecode(w.buf[:n+2])
	if err != nil || got != v || adv != n {
		return fmt.Sprintf("in-memory decoder on %x (value %d): value=%d advance=%d err=%v", w.buf[:n], v, got, adv, err)
	}
	w.rd.Reset(w.buf[:n+2])
	got, rn, err := mq.VerifVBIRead(&w.rd)
	if err != nil || got != v || rn != int64(n) || w.rd.Len() != 2 {
		return fmt.Sprintf("streaming decoder on %x (value %d): value=%d read=%d err=%v left=%d", w.buf[:n], v, got, rn, err, w.rd.Len())
	}
	return ""
}

// checkValueStalling feeds the streaming decoder from a plain io.Reader (no
// ReadByte) that returns (0, nil) before every byte and delivers the last
// byte together with io.EOF.
func (w *vbiWorker) checkValueStalling(v uint32) string {
	enc := ref.VBI(v)
	var steps []guard.Step
	for i := range enc {
		steps = append(steps, guard.Step{N: 0})
		s := guard.Step{N: 1}
		if i == len(enc)-1 {
			s.Err = "EOF"
		}
		steps = append(steps, s)
	}
	sr := &guard.ScriptReader{Data: enc, Steps: steps}
	got, rn, err := mq.VerifVBIRead(sr)
	if err != nil || got != v || rn != int64(len(enc)) {
		return fmt.Sprintf("streaming decoder on %x (value %d) from a reader that stalls with (0,nil) and ends with data+EOF: value=%d read=%d err=%v", enc, v, got, rn, err)
	}
	return ""
}

// checkSeq: both decoders agree with the reference on value or rejection.
func (w *vbiWorker) checkSeq(s []byte) (mustReject bool, msg string) {
	rv, rn, rerr := ref.DecodeVBI(s)
	mv, madv, merr := mq.VerifVBIDecode(s)
	w.rd.Reset(s)
	sv, sn, serr := mq.VerifVBIRead(&w.rd)
	if rerr != nil {
		if merr == nil {
			return true, fmt.Sprintf("in-memory decoder accepts %x (value %d); the specification rejects it: %v", s, mv, rerr)
		}
		if serr == nil {
			return true, fmt.Sprintf("streaming decoder accepts %x (value %d); the specification rejects it: %v", s, sv, rerr)
		}
		return true, ""
	}
	if merr != nil || mv != rv {
		return false, fmt.Sprintf("in-memory decoder on %x: value=%d err=%v, specification says %d", s, mv, merr, rv)
	}
	if serr != nil || sv != rv {
		return false, fmt.Sprintf("streaming decoder on %x: value=%d err=%v, specification says %d", s, sv, serr, rv)
	}
	if len(ref.VBI(rv)) == rn {
		// minimal form: the advance is promised as well
		if madv != rn || sn != int64(rn) {
			return false, fmt.Sprintf("minimal form %x of %d: in-memory advance %d, streaming read %d, want %d", s[:rn], rv, madv, sn, rn)
		}
	}
	return false, ""
}

func checkC15(c caseC15) (sig, msg string) {
	w := &vbiWorker{}
	var m string
	pan := guard.Call(func() {
		if c.Value != nil {
			m = w.checkValue(*c.Value)
			if m == "" {
				m = w.checkValueStalling(*c.Value)
			}
		} else {
			_, m = w.checkSeq(c.Seq)
		}
	})
	if pan != nil {
		return "panic", fmt.Sprintf("panic: %v\n%s", pan.Value, pan.Stack)
	}
	if m != "" {
		if c.Value != nil {
			return "value", m
		}
		return "sequence", m
	}
	return "", ""
}

// parallel runs f(worker, i) for i in [lo, hi) on all cores; it stops at the
// first failure and returns it.
func parallelRange(lo, hi uint64, f func(w *vbiWorker, i uint64) string) (uint64, string) {
	workers := runtime.NumCPU()
	var next uint64 = lo
	const chunk = 1 << 16
	var failMu sync.Mutex
	failAt, failMsg := uint64(0), ""
	var stop int32
	var wg sync.WaitGroup
	for k := 0; k < workers; k++ {
		wg.Add(1)
		go func() {
			defer wg.Done()
			w := &vbiWorker{}
			for atomic.LoadInt32(&stop) == 0 {
				start := atomic.AddUint64(&next, chunk) - chunk
				if start >= hi {
					return
				}
				end := start + chunk
				if end > hi {
					end = hi
				}
				for i := start; i < end; i++ {
					if m := f(w, i); m != "" {
						failMu.Lock()
						if failMsg == "" || i < failAt {
							failAt, failMsg = i, m
						}
						failMu.Unlock()
						atomic.StoreInt32(&stop, 1)
						return
					}
				}
			}
		}()
	}
	wg.Wait()
	return failAt, failMsg
}

func TestC15(t *testing.T) {
	curProp = "C15"
	r := vf.NewRec("C15")
	defer r.Finish(t)

	for _, rf := range r.LoadReplays(t) {
		var c caseC15
		if err := json.Unmarshal(rf.Case, &c); err != nil {
			t.Fatalf("replay %s: %v", rf.Source, err)
		}
		if c.Note != "" {
			before := r.Failed()
			useSiteStage(r)
			if !before && r.Failed() {
				continue // reported by the stage itself
			}
			continue
		}
		_, msg := checkC15(c)
		r.Case(vf.FPs("replay", string(rf.Case)), true, "replay", func() interface{} { return c })
		if msg != "" {
			r.FailReplay(rf, "%s", msg)
		}
	}
	if vf.ReplayOnly() {
		return
	}
	failValue := func(v uint32, msg string) {
		r.Fail("vbi", caseC15{Value: &v}, "value", "%s", msg)
	}
	failSeq := func(s []byte, msg string) {
		r.Fail("vbi", caseC15{Seq: append([]byte(nil), s...)}, "sequence", "%s", msg)
	}
	const maxV = 1 << 28
	w := &vbiWorker{}

	seqFromIndex := func(n int, i uint64, out []byte) []byte {
		for k := 0; k < n; k++ {
			out[k] = byte(i >> (8 * uint(k)))
		}
		return out[:n]
	}
	// number of must-reject sequences among all sequences of length n (<= 4):
	// those whose bytes all carry the continuation bit = 128^n.
	rejectCount := func(n int) int64 {
		c := int64(1)
		for i := 0; i < n; i++ {
			c *= 128
		}
		return c
	}

	if vf.Thorough() {
		// all 2^28 values
		at, msg := parallelRange(0, maxV, func(w *vbiWorker, i uint64) string { return w.checkValue(uint32(i)) })
		if msg != "" {
			failValue(uint32(at), msg)
			return
		}
		r.Bulk("values/all-2^28", maxV, maxV-128)
		r.Exhaustive("ALL: every value 0..268435455: encoding equals the reference minimal form, both decoders return value and advance")
		// all byte sequences of length 1..4
		for n := 1; n <= 4; n++ {
			n := n
			total := uint64(1) << (8 * uint(n))
			at, msg := parallelRange(0, total, func(w *vbiWorker, i uint64) string {
				var b [4]byte
				_, m := w.checkSeq(seqFromIndex(n, i, b[:]))
				return m
			})
			if msg != "" {
				var b [4]byte
				failSeq(seqFromIndex(n, at, b[:]), msg)
				return
			}
			r.Bulk(fmt.Sprintf("sequences/len%d", n), int64(total), rejectCount(n))
		}
		r.Exhaustive("every byte sequence of length 1..4 (2^8+2^16+2^24+2^32): decoder agreement with the reference on value or rejection")
		// 5-byte sequences: all 2^28 continuation prefixes x 5 fifth bytes
		fifth := []byte{0x00, 0x01, 0x7f, 0x80, 0xff}
		at, msg = parallelRange(0, maxV, func(w *vbiWorker, i uint64) string {
			var s [5]byte
			for k := 0; k < 4; k++ {
				s[k] = 0x80 | byte(i>>(7*uint(k)))&0x7f
			}
			for _, f := range fifth {
				s[4] = f
				if _, m := w.checkSeq(s[:]); m != "" {
					return m
				}
			}
			return ""
		})
		if msg != "" {
			var s [5]byte
			for k := 0; k < 4; k++ {
				s[k] = 0x80 | byte(at>>(7*uint(k)))&0x7f
			}
			s[4] = 0
			failSeq(s[:], msg)
			return
		}
		r.Bulk("sequences/len5-continuation-prefix", maxV*5, maxV*5)
		r.Exhaustive("all 2^28 four-byte continuation prefixes x fifth byte in {00,01,7f,80,ff}: rejected by both decoders")
	} else {
		// boundary neighbourhoods +-256, exhaustively
		var n, nt int64
		for _, b := range []uint32{0, 128, 16384, 2097152, maxV - 1} {
			lo, hi := int64(b)-256, int64(b)+256
			for v := lo; v <= hi; v++ {
				if v < 0 || v >= maxV {
					continue
				}
				if m := w.checkValue(uint32(v)); m != "" {
					failValue(uint32(v), m)
					return
				}
				if m := w.checkValueStalling(uint32(v)); m != "" {
					failValue(uint32(v), m)
					return
				}
				n++
				if v >= 128 {
					nt++
				}
			}
		}
		r.Bulk("values/boundary+-256", n, nt)
		// stride sweep of the 2^28 values; the offset depends on the seed
		off := uint32(*vf.Seed % 4099)
		n, nt = 0, 0
		for v := off; v < maxV; v += 4099 {
			if m := w.checkValue(v); m != "" {
				failValue(v, m)
				return
			}
			n++
			if v >= 128 {
				nt++
			}
		}
		r.Bulk("values/stride-4099", n, nt)
		// all sequences of length 1 and 2
		for ln := 1; ln <= 2; ln++ {
			total := uint64(1) << (8 * uint(ln))
			for i := uint64(0); i < total; i++ {
				var b [4]byte
				s := seqFromIndex(ln, i, b[:])
				if _, m := w.checkSeq(s); m != "" {
					failSeq(s, m)
					return
				}
			}
			r.Bulk(fmt.Sprintf("sequences/len%d", ln), int64(total), rejectCount(ln))
		}
		r.Exhaustive("every byte sequence of length 1 and 2; every value within 256 of each size boundary")
		// drawn longer sequences, biased to continuation bytes
		r.Rapid(t, "sequences", vf.N(300000, 300000), func(t *rapid.T) {
			ln := rapid.IntRange(3, 6).Draw(t, "len")
			s := make([]byte, ln)
			for i := range s {
				s[i] = rapid.Byte().Draw(t, "b")
				if rapid.IntRange(0, 2).Draw(t, "cont") > 0 {
					s[i] |= 0x80
				}
			}
			must, msg := w.checkSeq(s)
			class := "drawn/accepted"
			if must {
				class = "drawn/must-reject"
			}
			r.Case(vf.FP(s), true, class, func() interface{} { return caseC15{Seq: s} })
			if msg != "" {
				failSeq(s, msg)
				t.Fatalf("%s", msg)
			}
		})
	}
	r.Sample(map[string]interface{}{"value": 16384, "encoding": "808001"})
	r.Sample(map[string]interface{}{"sequence": "80", "expected": "rejected (ends on a continuation byte)"})
	r.Sample(map[string]interface{}{"sequence": "ffffffff7f", "expected": "rejected (fifth byte)"})

	// cross-check through the public API: subscription identifier round trip
	// and the remaining-length bytes of written PUBLISH frames
	r.Rapid(t, "public-api", vf.N(2000, 1000000), func(t *rapid.T) {
		v := rapid.Uint32Range(1, maxV-1).Draw(t, "v")
		if rapid.Bool().Draw(t, "boundary") {
			v = rapid.SampledFrom([]uint32{1, 127, 128, 16383, 16384, 2097151, 2097152, maxV - 1}).Draw(t, "vb")
		}
		m := model.New(model.SUBSCRIBE)
		m.PacketID, m.SubID = 1, int(v)
		m.Filters = []model.Filter{{Filter: "a", Opts: 0}}
		p := api.BuildDefault(&m)
		frame, _, err, pan := write(p)
		want := ref.Canonical(&m)
		r.Case(vf.FPs("subid", fmt.Sprint(v)), v >= 128, "public-api/subscription-identifier", func() interface{} { return map[string]interface{}{"subscription_identifier": v, "frame": hx(frame)} })
		if pan != nil || err != nil || !bytes.Equal(frame, want) {
			msg := fmt.Sprintf("SUBSCRIBE with subscription identifier %d written as %s, reference %s (%v %v)", v, hx(frame), hx(want), err, pan)
			r.Fail("vbi", caseC15{Value: &v}, "public-api", "%s", msg)
			t.Fatalf("%s", msg)
		}
		q, err, pan := read(frame)
		if pan != nil || err != nil || q.(*mq.Subscribe).SubscriptionID() != int(v) {
			msg := fmt.Sprintf("subscription identifier %d read back as %v (%v %v)", v, q, err, pan)
			r.Fail("vbi", caseC15{Value: &v}, "public-api", "%s", msg)
			t.Fatalf("%s", msg)
		}
		// several identifiers in one PUBLISH (each decoded in turn by the
		// in-memory decoder), payload padded so that the remaining length and
		// sometimes the property length sit on a size boundary
		pm := model.New(model.PUBLISH)
		pm.TopicName = "t"
		n := rapid.IntRange(2, 5).Draw(t, "nids")
		for i := 0; i < n; i++ {
			id := rapid.Uint32Range(1, maxV-1).Draw(t, "id")
			if rapid.Bool().Draw(t, "idb") {
				id = rapid.SampledFrom([]uint32{1, 127, 128, 16383, 16384, 2097151, 2097152, maxV - 1}).Draw(t, "idv")
			}
			pm.SubIDs = append(pm.SubIDs, id)
		}
		if rapid.Bool().Draw(t, "pad") {
			padToRemainingLength(&pm, rapid.SampledFrom(rlTargets).Draw(t, "rl"))
		}
		if rapid.IntRange(0, 3).Draw(t, "bigprops") == 0 {
			// property length on a boundary: one user property pads the section
			base := len(ref.Canonical(&pm))
			target := rapid.SampledFrom([]int{127, 128, 16383, 16384}).Draw(t, "proplen")
			pad := target - (base - 7) - 5
			if pad > 0 && pad < 65535 {
				pm.UserProps = []model.KV{{K: "k", V: string(bytes.Repeat([]byte{'p'}, pad))}}
			}
		}
		pm.Normalize()
		pf, _, err, pan := write(api.BuildDefault(&pm))
		pwant := ref.Canonical(&pm)
		r.Case(vf.FPs("subids", fmt.Sprint(pm.SubIDs), fmt.Sprint(len(pm.Payload))), true, "public-api/publish-subscription-identifiers", func() interface{} {
			return map[string]interface{}{"subscription_identifiers": pm.SubIDs, "frame": hx(pf)}
		})
		if pan != nil || err != nil || !bytes.Equal(pf, pwant) {
			msg := fmt.Sprintf("PUBLISH with subscription identifiers %v written as %s, reference %s (%v %v)", pm.SubIDs, hx(pf), hx(pwant), err, pan)
			r.Fail("vbi", caseC15{Seq: pf}, "public-api", "%s", msg)
			t.Fatalf("%s", msg)
		}
		pq, err, pan := read(pwant)
		if pan != nil || err != nil || fmt.Sprint(pq.(*mq.Publish).SubscriptionIDs()) != fmt.Sprint(pm.SubIDs) {
			msg := fmt.Sprintf("PUBLISH subscription identifiers %v read back as %v (%v %v), frame %s", pm.SubIDs, pq, err, pan, hx(pwant))
			if pp, ok := pq.(*mq.Publish); ok {
				msg = fmt.Sprintf("PUBLISH subscription identifiers %v read back as %v, frame %s", pm.SubIDs, pp.SubscriptionIDs(), hx(pwant))
			}
			r.Fail("vbi", caseC15{Seq: pwant}, "public-api", "%s", msg)
			t.Fatalf("%s", msg)
		}
	})

	useSiteStage(r)
}

// headWriter keeps the first bytes and counts the rest.
type headWriter struct {
	head []byte
	n    int64
}

func (w *headWriter) Write(p []byte) (int, error) {
	if len(w.head) < 16 {
		k := 16 - len(w.head)
		if k > len(p) {
			k = len(p)
		}
		w.head = append(w.head, p[:k]...)
	}
	w.n += int64(len(p))
	return len(p), nil
}

// useSiteStage checks the largest forms where the library uses them.
func useSiteStage(r *vf.Rec) {
	const maxV = 1 << 28
	// the largest forms at their use sites: a property length of four bytes
	// (2 097 152 bytes of properties and next to it), written and read back,
	// and the largest remaining length MQTT allows written through WriteTo
	for _, target := range []int{2097151, 2097152, 2097153} {
		pm := model.New(model.PUBLISH)
		pm.TopicName = "t"
		// each user property takes 1 + 2 + len(key) + 2 + len(value) bytes
		total := 0
		for total+60006+1000 < target {
			pm.UserProps = append(pm.UserProps, model.KV{K: "k", V: string(bytes.Repeat([]byte{'v'}, 60000))})
			total += 60006
		}
		pm.UserProps = append(pm.UserProps, model.KV{K: "k", V: string(bytes.Repeat([]byte{'w'}, target-total-6))})
		pm.Normalize()
		want := ref.Canonical(&pm)
		_, hdr, _ := ref.FrameLen(want)
		if pl := ref.VBI(uint32(target)); !bytes.Equal(want[hdr+3:hdr+3+len(pl)], pl) {
			r.Fail("harness", caseC15{Note: "harness"}, "harness", "use-site stage: the reference frame does not carry property length %d: %s", target, hx(want[:14]))
			break
		}
		got, _, err, pan := write(api.BuildDefault(&pm))
		r.Case(vf.FPs("proplen", fmt.Sprint(target)), true, "public-api/four-byte-property-length", func() interface{} {
			return map[string]interface{}{"property_length": target, "frame_bytes": len(want)}
		})
		if pan != nil || err != nil || !bytes.Equal(got, want) {
			r.Fail("vbi", caseC15{Note: fmt.Sprintf("property length %d", target)}, "public-api:proplen-write", "PUBLISH with %d bytes of properties: WriteTo gives %d bytes starting %s, reference %d bytes starting %s (%v %v)", target, len(got), hx(got[:min(len(got), 12)]), len(want), hx(want[:12]), err, pan)
			break
		}
		q, err, pan := read(want)
		if pan != nil || err != nil || q == nil {
			r.Fail("vbi", caseC15{Note: fmt.Sprintf("property length %d", target)}, "public-api:proplen-read", "a valid PUBLISH with %d bytes of properties (property length field %s) is rejected: %v %v", target, hx(ref.VBI(uint32(target))), err, pan)
			break
		}
		if d := model.Diff(api.Observe(q), expectAfterWire(pm)); d != "" {
			r.Fail("vbi", caseC15{Note: fmt.Sprintf("property length %d", target)}, "public-api:proplen-read", "PUBLISH with %d bytes of properties read back differently: %s", target, d)
			break
		}
	}
	// ReadPacket itself must reject a remaining length that continues beyond
	// four bytes or ends on a continuation byte, whatever follows
	for _, f := range [][]byte{
		{0xc0, 0x80, 0x80, 0x80, 0x80, 0x00},
		{0xe0, 0x81, 0x80, 0x80, 0x80, 0x00, 0x00},
		{0xc0, 0xff, 0xff, 0xff, 0xff, 0x7f},
		{0x30, 0x80, 0x80, 0x80, 0x80, 0x01, 0x00, 0x01, 0x61},
		{0xd0, 0xff, 0xff, 0xff, 0xff, 0x00},
		{0x20, 0x80, 0x80, 0x80, 0x80, 0x80, 0x00},
		{0xc0, 0x80}, {0xc0, 0x80, 0x80}, {0xc0, 0xff, 0xff, 0xff},
	} {
		q, err, pan := read(f)
		r.Case(vf.FP(f), true, "public-api/overlong-remaining-length", func() interface{} { return hx(f) })
		if pan != nil || err == nil || q != nil {
			r.Fail("vbi", caseC15{Note: "overlong remaining length " + hx(f)}, "public-api:overlong-remaining-length", "ReadPacket on %s (a remaining length that continues beyond four bytes or ends on a continuation byte) returned %v, %v (panic %v); it must be rejected", hx(f), q, err, pan)
			break
		}
	}
	// the will property length of CONNECT around its size boundaries
	for _, target := range []int{127, 128, 129, 16383, 16384, 16385} {
		cm := model.New(model.CONNECT)
		cm.ClientID = "c"
		cm.Will = &model.Will{Topic: "w", ContentType: string(bytes.Repeat([]byte{'t'}, target-3))}
		cm.Normalize()
		want := ref.Canonical(&cm)
		got, _, err, pan := write(api.BuildDefault(&cm))
		r.Case(vf.FPs("willproplen", fmt.Sprint(target)), true, "public-api/will-property-length", func() interface{} {
			return map[string]interface{}{"will_property_length": target}
		})
		if pan != nil || err != nil || !bytes.Equal(got, want) {
			r.Fail("vbi", caseC15{Note: fmt.Sprintf("will property length %d", target)}, "public-api:will-proplen", "CONNECT whose will properties take %d bytes: WriteTo gives %s, reference %s (%v %v)", target, hx(got[:min(len(got), 24)]), hx(want[:24]), err, pan)
			break
		}
	}
	for _, rl := range []int{maxV - 5, maxV - 1} {
		pm := model.New(model.PUBLISH)
		pm.TopicName = "t"
		padToRemainingLength(&pm, rl)
		p := api.BuildDefault(&pm)
		w := &headWriter{}
		var n int64
		var err error
		pan := guard.Call(func() { n, err = p.WriteTo(w) })
		wantHead := append([]byte{0x30}, ref.VBI(uint32(rl))...)
		r.Case(vf.FPs("maxrl", fmt.Sprint(rl)), true, "public-api/largest-remaining-length", func() interface{} {
			return map[string]interface{}{"remaining_length": rl, "head": hx(w.head)}
		})
		pm.Payload, p = nil, nil
		debug.FreeOSMemory()
		if pan != nil || err != nil || n != int64(1+4+rl) || w.n != n || !bytes.Equal(w.head[:min(len(w.head), 5)], wantHead) {
			r.Fail("vbi", caseC15{Note: fmt.Sprintf("remaining length %d", rl)}, "public-api:largest-remaining-length", "PUBLISH with remaining length %d (MQTT allows up to 268 435 455): WriteTo returned n=%d err=%v panic=%v, the writer saw %d bytes starting %s, want %d bytes starting %s", rl, n, err, pan, w.n, hx(w.head), 1+4+rl, hx(wantHead))
			break
		}
	}
}
