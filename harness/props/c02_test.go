package props

import (
	"encoding/json"
	"fmt"
	"testing"

	"github.com/gregoryv/mq"
	"pgregory.net/rapid"

	"verif/harness/guard"
	"verif/harness/model"
	"verif/harness/ref"
	"verif/harness/vf"
)

// C02 — everything WriteTo emits is a structurally valid MQTT v5.0 frame.
//
// Domain: C01 generators (MQTT-well-formed, default protocol name/version).
// Oracle: differential against the independent strict decoder: it must accept
// the frame and read back exactly the model (absent property = zero value).

func checkC02(c caseC01) (m model.Packet, frame []byte, sig, msg string) {
	guard.SetCurrent(func() []byte {
		return mustJSON(vf.Failure{Property: "C02", Kind: "hang", Case: mustJSON(c), Signature: "hang", Message: "a library call made for this case did not return"})
	})
	defer guard.SetCurrent(nil)
	var built mq.ControlPacket
	var berr error
	if pan := guard.Call(func() { built, m, berr = c.build() }); pan != nil {
		return m, nil, "build-panic", fmt.Sprintf("panic while building through the API: %v\n%s", pan.Value, pan.Stack)
	}
	if berr != nil {
		return m, nil, "harness", "harness: " + berr.Error()
	}
	frame, _, err, pan := write(built)
	if pan != nil {
		return m, nil, "write-panic", fmt.Sprintf("WriteTo panicked: %v\n%s", pan.Value, pan.Stack)
	}
	if err != nil {
		return m, nil, "write-error", fmt.Sprintf("WriteTo failed: %v", err)
	}
	got, err := ref.DecodeStrict(frame)
	if err != nil {
		return m, frame, "strict-reject:" + typeName(m.Type), fmt.Sprintf("the strict reference decoder rejects the emitted frame %s: %v", hx(frame), err)
	}
	want := expectAfterWire(m)
	if d := model.Diff(got, want); d != "" {
		return m, frame, "strict-field:" + fieldOf(d), fmt.Sprintf("the specification reads other values from the emitted frame than were set (frame vs set) %s\nframe %s", d, hx(frame))
	}
	return m, frame, "", ""
}

// frameFeatures inspects a valid frame with the reference decoder's framing:
// number of properties, multi-byte lengths.
func c02Nontrivial(m *model.Packet, frame []byte) bool {
	if m.Will != nil || sizeClass(frame) != "rl1" {
		return true
	}
	// any property present?
	f := ref.Tree(m, ref.Style{})
	for _, s := range f.PropSections() {
		if len(s.Kids) > 0 {
			return true
		}
	}
	return false
}

func TestC02(t *testing.T) {
	r := vf.NewRec("C02")
	defer r.Finish(t)
	guard.StartWatchdog(*vf.Out, vf.Label("C02"))

	for _, rf := range r.LoadReplays(t) {
		var c caseC01
		if err := json.Unmarshal(rf.Case, &c); err != nil {
			t.Fatalf("replay %s: %v", rf.Source, err)
		}
		m, frame, _, msg := checkC02(c)
		r.Case(vf.FPs("replay", c.ModelGob), c02Nontrivial(&m, frame), "replay/"+typeName(m.Type), func() interface{} { return c.Model })
		if msg != "" {
			r.FailReplay(rf, "%s", msg)
		}
	}
	if vf.ReplayOnly() {
		return
	}

	perType := vf.N(1200, 500000)
	for typ := uint8(1); typ <= 15; typ++ {
		typ := typ
		n := perType
		if typ == model.PINGREQ || typ == model.PINGRESP {
			n = 3
		}
		r.Rapid(t, typeName(typ), n, func(t *rapid.T) {
			m := genC01(t, typ)
			if m.Type == model.CONNECT {
				m.ProtocolName, m.ProtocolVersion = "MQTT", 5 // C02 keeps the default protocol name and version
			}
			if !m.WellFormedMQTT() {
				t.Fatalf("generator produced a packet outside the C02 domain: %s", m.String())
			}
			c := drawBuildCase(t, &m, typ)
			_, frame, sig, msg := checkC02(c)
			nt := c02Nontrivial(&m, frame)
			r.Case(vf.FP(frame), nt, typeName(typ)+"/"+sizeClass(frame), func() interface{} {
				return map[string]interface{}{"model": m.String(), "frame": hx(frame)}
			})
			if msg != "" {
				r.Fail("conformance", c, sig, "%s\nmodel: %s", msg, m.String())
				t.Fatalf("%s", msg)
			}
		})
	}
}
