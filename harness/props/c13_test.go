package props

import (
	"bytes"
	"encoding/json"
	"errors"
	"fmt"
	"io"
	"os"
	"path/filepath"
	"runtime"
	"sync"
	"testing"
	"time"

	"github.com/gregoryv/mq"
	"pgregory.net/rapid"

	"verif/harness/api"
	"verif/harness/guard"
	"verif/harness/model"
	"verif/harness/ref"
	"verif/harness/vf"
)

// C13 — read-only operations on a shared packet are safe to run
// concurrently. Runs under the Go race detector (GORACE=halt_on_error=1):
// a race report ends the process with status 66; the case in flight was
// written to disk before it started, so the driver can report it.

type caseC13 struct {
	ModelGob string     `json:"model_gob"`
	Model    string     `json:"model"`
	Plan     []api.Step `json:"plan"`
	// Ops[g] is the operation list of goroutine g.
	// 0 WriteTo 1 String 2 Dump 3 WellFormed 4 accessors 5 ReadPacket on a private stream
	// 6 WriteTo of the shared will 7 String of the shared will 8 accessors of the shared will
	Ops  [][]int `json:"ops"`
	Reps int     `json:"reps"`
	// Decoded: the shared packet is not the built one but what ReadPacket
	// returns for its encoding (decoders may leave state bound to it).
	Decoded bool `json:"decoded,omitempty"`
	// Private: frames for the "ReadPacket on a private stream" operation
	// (taken round-robin); empty = the shared packet's own encoding.
	Private []Hex `json:"private,omitempty"`
	// Zero: the packet starts as the zero value of its type (var p mq.PubAck)
	// instead of the constructor's value.
	Zero bool `json:"zero,omitempty"`
}

var c13OpNames = []string{"WriteTo", "String", "Dump", "WellFormed", "Accessors", "ReadPacket(private)", "will.WriteTo", "will.String", "will.Accessors", "Dump(yielding writer)", "WriteTo(yielding writer)", "WriteTo(failing writer)"}

// yieldWriter copies what it is given, yielding the processor before and
// after, like a connection or a locked log writer would.
type yieldWriter struct{ got []byte }

func (w *yieldWriter) Write(p []byte) (int, error) {
	runtime.Gosched()
	w.got = append(w.got, p...)
	runtime.Gosched()
	return len(p), nil
}

func checkC13(c caseC13) (sig, msg string) {
	m, err := unpackModel(c.ModelGob)
	if err != nil {
		return "harness", err.Error()
	}
	// the reference bytes come from a twin built the same way, so that the
	// shared packet is untouched (never encoded, never rendered) when the
	// goroutines start
	api.StartFromZero = c.Zero
	defer func() { api.StartFromZero = false }()
	twin := api.Build(&m, c.Plan)
	seq, _, werr := api.Encode(twin)
	if werr != nil {
		return "harness", "sequential WriteTo failed: " + werr.Error()
	}
	p := api.Build(&m, c.Plan)
	if c.Decoded {
		// the twin that supplies the reference bytes is decoded first, the
		// packet to be shared last: whatever a decoder leaves bound to "the
		// packet decoded most recently" is then bound to the shared one
		q2, err := mq.ReadPacket(bytes.NewReader(seq))
		if err != nil {
			return "", "" // not decodable: nothing to share
		}
		ref2, _, _ := api.Encode(q2)
		q, err := mq.ReadPacket(bytes.NewReader(seq))
		if err != nil {
			return "", ""
		}
		p = q
		seq = ref2
	}
	privateFrame := func(g, k int) []byte {
		if len(c.Private) == 0 {
			return seq
		}
		return c.Private[(g+k)%len(c.Private)]
	}
	var will *mq.Publish
	var willSeq []byte
	if cp, ok := p.(*mq.Connect); ok && cp.Will() != nil {
		will = cp.Will()
		willSeq, _, _ = api.Encode(will)
	}
	for rep := 0; rep < c.Reps; rep++ {
		var wg sync.WaitGroup
		start := make(chan struct{})
		errs := make(chan string, len(c.Ops)*8)
		for g, ops := range c.Ops {
			wg.Add(1)
			go func(g int, ops []int) {
				defer wg.Done()
				defer func() {
					if v := recover(); v != nil {
						errs <- fmt.Sprintf("goroutine %d panicked: %v", g, v)
					}
				}()
				<-start
				for k, op := range ops {
					switch op {
					case 0:
						var buf bytes.Buffer
						_, _ = p.WriteTo(&buf)
						if !bytes.Equal(buf.Bytes(), seq) {
							errs <- fmt.Sprintf("concurrent WriteTo in goroutine %d produced %s, sequential %s", g, hx(buf.Bytes()), hx(seq))
						}
					case 1:
						_ = p.String()
					case 2:
						mq.Dump(io.Discard, p)
					case 3:
						if wf, ok := p.(mq.HasWellFormed); ok {
							_ = wf.WellFormed()
						}
					case 4:
						_ = api.Observe(p)
					case 5:
						if _, err := mq.ReadPacket(bytes.NewReader(privateFrame(g, k))); err != nil {
							// a caller logs the error: walk the chain and render it
							for e := err; e != nil; e = errors.Unwrap(e) {
								_ = e.Error()
							}
						}
					case 11:
						fw := &guard.ScriptWriter{Accept: len(seq) / 2, Err: &guard.InjectedError{ID: g}}
						_, _ = p.WriteTo(fw)
					case 9:
						mq.Dump(&yieldWriter{}, p)
					case 10:
						w := &yieldWriter{}
						_, _ = p.WriteTo(w)
						if !bytes.Equal(w.got, seq) {
							errs <- fmt.Sprintf("concurrent WriteTo to a yielding writer in goroutine %d produced %s, sequential %s", g, hx(w.got), hx(seq))
						}
					case 6:
						if will != nil {
							var buf bytes.Buffer
							_, _ = will.WriteTo(&buf)
							if !bytes.Equal(buf.Bytes(), willSeq) {
								errs <- fmt.Sprintf("concurrent WriteTo of the shared will produced other bytes")
							}
						}
					case 7:
						if will != nil {
							_ = will.String()
						}
					case 8:
						if will != nil {
							_ = api.Observe(will)
						}
					}
				}
			}(g, ops)
		}
		close(start)
		wg.Wait()
		close(errs)
		for e := range errs {
			return "concurrent-bytes", e
		}
	}
	return "", ""
}

func TestC13(t *testing.T) {
	curProp = "C13"
	// one guarded "call" is a whole case here: up to 8 goroutines x 6
	// operations x 5 repetitions under the race detector
	guard.HangTime = 120 * time.Second
	r := vf.NewRec("C13")
	defer r.Finish(t)
	guard.StartWatchdog(*vf.Out, vf.Label("C13"))
	if !raceEnabled {
		r.Note("built without -race: only the byte comparison is checked in this run")
	}
	current := ""
	if *vf.Out != "" && raceEnabled {
		current = filepath.Join(*vf.Out, fmt.Sprintf("C13.current.shard%d.json", *vf.Shard))
	}
	announce := func(c caseC13) {
		if current != "" {
			b, _ := json.Marshal(vf.Failure{Property: "C13", Kind: "race", Case: mustJSON(c), Signature: "race", Message: "data race reported by the Go race detector while this case was running"})
			_ = os.WriteFile(current, b, 0o644)
		}
	}

	for _, rf := range r.LoadReplays(t) {
		var c caseC13
		if err := json.Unmarshal(rf.Case, &c); err != nil {
			t.Fatalf("replay %s: %v", rf.Source, err)
		}
		c.Reps = 200
		announce(c)
		_, msg := checkC13(c)
		r.Case(vf.FPs("replay", c.ModelGob), true, "replay", func() interface{} { return c.Model })
		if msg != "" {
			r.FailReplay(rf, "%s", msg)
		}
	}
	if vf.ReplayOnly() {
		return
	}

	r.Rapid(t, "schedules", vf.N(800, 160000), func(t *rapid.T) {
		typ := uint8(rapid.IntRange(1, 15).Draw(t, "type"))
		switch rapid.IntRange(0, 5).Draw(t, "connect") {
		case 0:
			typ = model.CONNECT
		case 1, 2:
			typ = model.PUBLISH
		}
		m := genC01(t, typ)
		if len(m.Payload) > 100000 {
			// megabyte payloads (the 4-byte remaining-length class) only make
			// every copy under the race detector slow; races do not depend on size
			m.Payload = m.Payload[:1000]
		}
		plan := drawPlan(t, &m)
		g := rapid.IntRange(2, 8).Draw(t, "goroutines")
		c := caseC13{ModelGob: packModel(m), Model: m.String(), Plan: plan, Reps: 5}
		opset := []int{0, 1, 2, 3, 4, 5, 5, 9, 10, 11}
		if m.Will != nil {
			opset = append(opset, 6, 7, 8)
		}
		hasWrite, hasOther := false, false
		for i := 0; i < g; i++ {
			ops := rapid.SliceOfN(rapid.SampledFrom(opset), 1, 6).Draw(t, "ops")
			c.Ops = append(c.Ops, ops)
			for _, o := range ops {
				if o == 0 {
					hasWrite = true
				} else {
					hasOther = true
				}
			}
		}
		c.Decoded = rapid.Bool().Draw(t, "decoded")
		c.Zero = !c.Decoded && rapid.IntRange(0, 3).Draw(t, "zero") == 0
		allRead := rapid.IntRange(0, 5).Draw(t, "allread") == 0
		if allRead {
			// every goroutine (also) reads from its own stream at the same time
			for i := range c.Ops {
				c.Ops[i] = append([]int{5, 5}, c.Ops[i]...)
			}
		}
		if allRead || rapid.Bool().Draw(t, "privateframes") {
			n := rapid.IntRange(1, 3).Draw(t, "nprivate")
			for i := 0; i < n; i++ {
				f, _ := genHostileFrame(t)
				switch rapid.IntRange(0, 8).Draw(t, "privatekind") {
				case 0:
					_, f, _, _ = genValidFrame(t, true)
				case 1, 2, 3, 4:
					f = genMisplacedProperty(t)
				case 5, 6:
					// a valid frame whose body stops early (remaining length
					// adjusted): decoding fails on every stream, each with an
					// error of its own
					_, v, _, _ := genValidFrame(t, true)
					if first, hdr, body, ok := ref.Split(v); ok && len(body) > 0 {
						f = ref.Reframe(first, v[hdr:hdr+rapid.IntRange(0, len(body)-1).Draw(t, "privatecut")])
					}
				}
				if len(f) > 2048 {
					f = f[:2048]
				}
				if total, _, err := ref.FrameLen(f); err == nil && total > 1<<20 {
					// a header that declares up to 256 MiB makes every one of
					// eight goroutines allocate that much under the race
					// detector: races do not depend on size
					f = []byte{f[0], 0x10}
				}
				c.Private = append(c.Private, f)
			}
		}
		announce(c)
		var sig, msg string
		if pan := guard.Watched(1<<20, func() []byte {
			return mustJSON(vf.Failure{Property: "C13", Kind: "hang", Case: mustJSON(c), Signature: "hang", Message: "an operation on the shared packet did not return"})
		}, func() { sig, msg = checkC13(c) }); pan != nil {
			sig, msg = "panic", fmt.Sprintf("panic: %v", pan.Value)
		}
		class := typeName(typ)
		if c.Decoded {
			class += "/decoded"
		}
		if m.Will != nil {
			class += "/shared-will"
		}
		r.Case(vf.FPs(c.ModelGob, fmt.Sprint(c.Ops, c.Decoded, c.Private, c.Zero)), hasWrite && hasOther, class, func() interface{} {
			names := make([][]string, len(c.Ops))
			for i, ops := range c.Ops {
				for _, o := range ops {
					names[i] = append(names[i], c13OpNames[o])
				}
			}
			return map[string]interface{}{"model": m.String(), "goroutines": names, "repetitions": c.Reps}
		})
		if msg != "" {
			r.Fail("concurrency", c, sig, "%s", msg)
			t.Fatalf("%s", msg)
		}
	})
	if current != "" {
		_ = os.Remove(current)
	}
}
