package props

import (
	"bytes"
	"encoding/json"
	"fmt"
	"testing"

	"github.com/gregoryv/mq"
	"pgregory.net/rapid"

	"verif/harness/api"
	"verif/harness/guard"
	"verif/harness/model"
	"verif/harness/vf"
)

// C01 — write/read round trip, field for field.
//
// Domain: packets of all 15 types built through constructors and setters in
// a generated call order, values inside MQTT's limits, MQTT-well-formed.
// Oracle: WriteTo -> ReadPacket succeeds, same dynamic type, every accessor
// equals the model, and re-encoding the decoded packet is byte-identical.

type caseC01 = buildCase

// checkC01 is the pure oracle. It returns the frame (for statistics), a
// root-cause signature and a message; msg == "" means the property held.
func checkC01(c caseC01) (m model.Packet, frame []byte, sig, msg string) {
	guard.SetCurrent(func() []byte {
		return mustJSON(vf.Failure{Property: "C01", Kind: "hang", Case: mustJSON(c), Signature: "hang", Message: "a library call made for this case did not return"})
	})
	defer guard.SetCurrent(nil)
	var built mq.ControlPacket
	var berr error
	if pan := guard.Call(func() { built, m, berr = c.build() }); pan != nil {
		return m, nil, "build-panic", fmt.Sprintf("panic while building through the API: %v\n%s", pan.Value, pan.Stack)
	}
	if berr != nil {
		return m, nil, "harness", "harness: " + berr.Error()
	}
	frame, _, err, pan := write(built)
	if pan != nil {
		return m, nil, "write-panic", fmt.Sprintf("WriteTo panicked: %v\n%s", pan.Value, pan.Stack)
	}
	if err != nil {
		return m, nil, "write-error", fmt.Sprintf("WriteTo failed: %v", err)
	}
	q, err, pan := read(frame)
	if pan != nil {
		return m, frame, "read-panic", fmt.Sprintf("ReadPacket panicked on the library's own frame %s: %v\n%s", hx(frame), pan.Value, pan.Stack)
	}
	if err != nil {
		return m, frame, "read-error", fmt.Sprintf("ReadPacket rejected the library's own frame %s: %v", hx(frame), err)
	}
	if q == nil {
		return m, frame, "nil-nil", "ReadPacket returned (nil, nil)"
	}
	if api.TypeOf(q) != int(m.Type) {
		return m, frame, "type", fmt.Sprintf("wrote %s, read back %T", typeName(m.Type), q)
	}
	want := expectAfterWire(m)
	got := api.Observe(q)
	if d := model.Diff(got, want); d != "" {
		return m, frame, "field:" + fieldOf(d), fmt.Sprintf("accessor mismatch after round trip (got vs want) %s\nframe %s", d, hx(frame))
	}
	frame2, _, err, pan := write(q)
	if pan != nil || err != nil {
		return m, frame, "rewrite", fmt.Sprintf("re-encoding the decoded packet failed: %v %v", err, pan)
	}
	if !bytes.Equal(frame, frame2) {
		return m, frame, "reencode", fmt.Sprintf("re-encoding differs:\n first %s\nsecond %s", hx(frame), hx(frame2))
	}
	if c.Forward > 0 {
		// second generation: the decoded packet is changed through one public
		// setter or adder, written and read again
		want2 := want.Clone()
		what := ""
		if pan := guard.Call(func() { what = api.TweakOne(q, &want2, c.Forward) }); pan != nil {
			return m, frame, "forward-panic", fmt.Sprintf("a setter on the decoded packet panicked: %v", pan.Value)
		}
		if what != "" {
			want2 = expectAfterWire(want2)
			if d := model.Diff(api.Observe(q), want2); d != "" && !onlyWireNormalised(d) {
				return m, frame, "forward-accessor:" + what, fmt.Sprintf("after %s on the decoded packet its accessors differ from what was set (got vs want): %s", what, d)
			}
			frame3, _, err, pan := write(q)
			if pan != nil || err != nil {
				return m, frame, "forward-write", fmt.Sprintf("writing the decoded packet after %s failed: %v %v", what, err, pan)
			}
			q3, err, pan := read(frame3)
			if pan != nil || err != nil || q3 == nil {
				return m, frame, "forward-read", fmt.Sprintf("the decoded packet was changed with %s and written again; ReadPacket rejects that frame %s: %v %v", what, hx(frame3), err, pan)
			}
			if d := model.Diff(api.Observe(q3), want2); d != "" {
				return m, frame, "forward-field:" + fieldOf(d), fmt.Sprintf("the decoded packet was changed with %s, written and read again: accessors differ from what was set (got vs want) %s\nfirst frame  %s\nsecond frame %s", what, d, hx(frame), hx(frame3))
			}
		}
	}
	return m, frame, "", ""
}

// onlyWireNormalised: differences that only exist between "as set" and "as
// read back" (none so far); kept as the one place to list them.
func onlyWireNormalised(d string) bool { return false }

func fieldOf(diff string) string {
	for i := 0; i < len(diff); i++ {
		if diff[i] == ':' || diff[i] == '[' {
			return diff[:i]
		}
	}
	return diff
}

func classifyC01(r *vf.Rec, m *model.Packet, frame []byte) (bool, string) {
	bl := boundaryLens(m)
	nontrivial := optionalCount(m) > 0 || len(bl) > 0 || maxListLen(m) >= 2
	tn := typeName(m.Type)
	sc := sizeClass(frame)
	r.Count("size/"+sc, 1)
	for _, b := range bl {
		r.Count("boundary/"+b, 1)
	}
	if m.Will != nil {
		r.Count("connect/will", 1)
		if m.Will.Retain {
			r.Count("connect/will-retain", 1)
		}
	}
	switch m.Type {
	case model.PUBACK, model.PUBREC, model.PUBREL, model.PUBCOMP:
		if m.ReasonCode == 0 && (m.ReasonString != "" || len(m.UserProps) > 0) {
			r.Count("ack/reason0-with-props", 1)
		}
	}
	return nontrivial, tn + "/" + sc
}

func TestC01(t *testing.T) {
	r := vf.NewRec("C01")
	defer r.Finish(t)
	guard.StartWatchdog(*vf.Out, vf.Label("C01"))

	for _, rf := range r.LoadReplays(t) {
		var c caseC01
		if err := json.Unmarshal(rf.Case, &c); err != nil {
			t.Fatalf("replay %s: %v", rf.Source, err)
		}
		m, frame, _, msg := checkC01(c)
		nt, class := classifyC01(r, &m, frame)
		r.Case(vf.FPs("replay", c.ModelGob), nt, "replay/"+class, func() interface{} { return c.Model })
		if msg != "" {
			r.FailReplay(rf, "%s", msg)
		}
	}
	if vf.ReplayOnly() {
		return
	}

	perType := vf.N(1200, 400000)
	for typ := uint8(1); typ <= 15; typ++ {
		typ := typ
		n := perType
		if typ == model.PINGREQ || typ == model.PINGRESP {
			n = 3
		}
		r.Rapid(t, typeName(typ), n, func(t *rapid.T) {
			m := genC01(t, typ)
			c := drawBuildCase(t, &m, typ)
			_, frame, sig, msg := checkC01(c)
			nt, class := classifyC01(r, &m, frame)
			if len(c.Prelude) > 0 {
				r.Count("with-prelude", 1)
			}
			if c.DecoyGob != "" {
				r.Count("with-decoy-calls", 1)
			}
			r.Case(vf.FPs(c.ModelGob, fmt.Sprint(c.Plan), fmt.Sprint(len(c.Prelude))), nt, class, func() interface{} {
				return map[string]interface{}{"model": m.String(), "frame": hx(frame), "setter_calls": len(c.Plan), "prelude_ops": len(c.Prelude)}
			})
			if msg != "" {
				r.Fail("roundtrip", c, sig, "%s\nmodel: %s", msg, m.String())
				t.Fatalf("%s", msg)
			}
		})
	}
}
