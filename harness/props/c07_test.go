package props

import (
	"bytes"
	"encoding/json"
	"fmt"
	"testing"

	"github.com/gregoryv/mq"
	"pgregory.net/rapid"

	"verif/harness/guard"
	"verif/harness/ref"
	"verif/harness/vf"
)

// C07 — the decoded packet does not depend on how the stream is fragmented.

type caseC07 struct {
	Frame  Hex          `json:"frame"`
	Steps  []guard.Step `json:"steps"`
	Reader string       `json:"reader,omitempty"` // concrete reader type wrapped around the schedule
}

func contiguous(frame []byte) readResult {
	var p mq.ControlPacket
	var err error
	pan := guard.Watched(len(frame), inflightRender(caseFrame{Frame: frame, Entry: "ReadPacket"}), func() {
		p, err = mq.ReadPacket(bytes.NewReader(frame))
	})
	return resultOf(p, err, pan)
}

func checkC07(frame []byte, steps []guard.Step, reader string) (sig, msg string) {
	base := contiguous(frame)
	sr := &guard.ScriptReader{Data: frame, Steps: steps}
	rd, _ := wrappedStream(reader, sr)
	got := readFrom(rd, len(frame), func() interface{} {
		return vf.Failure{Property: "C07", Kind: "hang", Case: mustJSON(caseC07{frame, steps, reader}), Signature: "hang"}
	})
	if d := sameResult(base, got); d != "" {
		return "fragmentation", fmt.Sprintf("frame %s delivered (%s reader) as %s: %s\ncontiguous: ok=%v err=%v\nfragmented: ok=%v err=%v", hx(frame), reader, renderSteps(steps), d, base.OK, base.Err, got.OK, got.Err)
	}
	return "", ""
}

func renderSteps(st []guard.Step) string {
	var b bytes.Buffer
	for i, s := range st {
		if i > 0 {
			b.WriteByte(' ')
		}
		if i > 24 {
			fmt.Fprintf(&b, "...(%d reads)", len(st))
			break
		}
		fmt.Fprintf(&b, "%d", s.N)
		if s.Err != "" {
			b.WriteString("+" + s.Err)
		}
	}
	return b.String()
}

func c07Nontrivial(frame []byte, steps []guard.Step) (bool, string) {
	_, hdr, err := ref.FrameLen(frame)
	if err != nil {
		hdr = 2
	}
	pos := 0
	splitsBody, splitsRL, zero, dataEOF := false, false, false, false
	for _, s := range steps {
		if s.N == 0 && s.Err == "" {
			zero = true
		}
		if s.Err == "EOF" && s.N > 0 {
			dataEOF = true
		}
		pos += s.N
		if pos > hdr && pos < len(frame) {
			splitsBody = true
		}
		if pos > 1 && pos < hdr {
			splitsRL = true
		}
	}
	class := "plain"
	switch {
	case splitsRL:
		class = "splits-remaining-length"
	case zero && dataEOF:
		class = "zero-reads+data-with-eof"
	case zero:
		class = "zero-reads"
	case dataEOF:
		class = "data-with-eof"
	case splitsBody:
		class = "splits-body"
	}
	return splitsBody || splitsRL || zero || dataEOF, class
}

func TestC07(t *testing.T) {
	curProp = "C07"
	r := vf.NewRec("C07")
	defer r.Finish(t)
	guard.StartWatchdog(*vf.Out, "C07")

	for _, rf := range r.LoadReplays(t) {
		var c caseC07
		if err := json.Unmarshal(rf.Case, &c); err != nil {
			t.Fatalf("replay %s: %v", rf.Source, err)
		}
		_, msg := checkC07(c.Frame, c.Steps, c.Reader)
		r.Case(vf.FPs("replay", string(c.Frame), fmt.Sprint(c.Steps)), true, "replay", func() interface{} { return c })
		if msg != "" {
			r.FailReplay(rf, "%s", msg)
		}
	}
	if vf.ReplayOnly() {
		return
	}

	// exhaustive part: every composition x 4 endings for short frames
	maxLen := 10
	if vf.Thorough() {
		maxLen = 14
	}
	frames := shortFrames(maxLen)
	done := 0
	for fi, f := range frames {
		if fi%*vf.Shards != *vf.Shard {
			continue
		}
		n := len(f)
		for i := uint(0); i < 1<<uint(n-1); i++ {
			ch := composition(n, i)
			for v := 0; v < 4; v++ {
				steps := schedule(ch, v&1 != 0, v&2 != 0)
				sig, msg := checkC07(f, steps, "script")
				nt, class := c07Nontrivial(f, steps)
				r.Case(vf.FPs(string(f), fmt.Sprint(steps)), nt, "exhaustive/"+class, func() interface{} {
					return map[string]interface{}{"frame": hx(f), "reads": renderSteps(steps)}
				})
				if msg != "" {
					r.Fail("fragmentation", caseC07{f, steps, "script"}, sig, "%s", msg)
					goto generated
				}
			}
		}
		done++
	}
	r.Exhaustive(fmt.Sprintf("all 2^(n-1) compositions x 4 endings for %d complete frames of <= %d bytes", len(frames), maxLen))

generated:
	r.Rapid(t, "schedules", vf.N(12000, 2000000), func(t *rapid.T) {
		frame, kind := genCompleteFrame(t, rapid.Bool().Draw(t, "small"))
		ch := drawChunks(t, len(frame))
		steps := schedule(ch, false, rapid.Bool().Draw(t, "eof-with-last"))
		// zero-length reads anywhere
		if rapid.Bool().Draw(t, "zeros") {
			var st []guard.Step
			for _, s := range steps {
				for rapid.IntRange(0, 3).Draw(t, "zero") == 0 {
					st = append(st, guard.Step{N: 0})
				}
				st = append(st, s)
			}
			steps = st
		}
		reader := rapid.SampledFrom(wrapKinds).Draw(t, "reader")
		sig, msg := checkC07(frame, steps, reader)
		nt, class := c07Nontrivial(frame, steps)
		r.Case(vf.FPs(string(frame), fmt.Sprint(steps), reader), nt, kind+"/"+class+"/"+reader, func() interface{} {
			return map[string]interface{}{"frame": hx(frame), "reads": renderSteps(steps), "reader": reader}
		})
		if msg != "" {
			r.Fail("fragmentation", caseC07{frame, steps, reader}, sig, "%s", msg)
			t.Fatalf("%s", msg)
		}
	})
}
