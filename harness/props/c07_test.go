package props

import (
	"bytes"
	"encoding/json"
	"fmt"
	"testing"

	"github.com/gregoryv/mq"
	"pgregory.net/rapid"

	"verif/harness/guard"
	"verif/harness/ref"
	"verif/harness/vf"
)

// C07 — the decoded packet does not depend on how the stream is fragmented.

type caseC07 struct {
	Frame  Hex          `json:"frame"`
	Steps  []guard.Step `json:"steps"`
	Reader string       `json:"reader,omitempty"` // concrete reader type wrapped around the schedule
	Before Hex          `json:"before,omitempty"` // a complete frame that precedes Frame on the same stream and is read first
}

func contiguous(frame []byte) readResult {
	var p mq.ControlPacket
	var err error
	pan := guard.Watched(len(frame), inflightRender(caseFrame{Frame: frame, Entry: "ReadPacket"}), func() {
		p, err = mq.ReadPacket(bytes.NewReader(frame))
	})
	return resultOf(p, err, pan)
}

func checkC07(frame []byte, steps []guard.Step, reader string) (sig, msg string) {
	return checkC07b(caseC07{Frame: frame, Steps: steps, Reader: reader})
}

func checkC07b(c caseC07) (sig, msg string) {
	frame, steps, reader := c.Frame, c.Steps, c.Reader
	base := contiguous(frame)
	stream := append(append([]byte(nil), c.Before...), frame...)
	sr := &guard.ScriptReader{Data: stream, Steps: steps}
	rd, _ := wrappedStream(reader, sr)
	render := func() interface{} {
		return vf.Failure{Property: "C07", Kind: "hang", Case: mustJSON(c), Signature: "hang"}
	}
	if len(c.Before) > 0 {
		// the frame in front is read (and judged by C06); its own result is
		// compared with the contiguous read as well
		b0 := contiguous(c.Before)
		g0 := readFrom(rd, len(c.Before), render)
		if d := sameResult(b0, g0); d != "" {
			return "fragmentation", fmt.Sprintf("first of two frames %s|%s delivered (%s reader) as %s: %s", hx(c.Before), hx(frame), reader, renderSteps(steps), d)
		}
	}
	got := readFrom(rd, len(frame), render)
	if d := sameResult(base, got); d != "" {
		pre := ""
		if len(c.Before) > 0 {
			pre = fmt.Sprintf(" (preceded on the stream by %s)", hx(c.Before))
		}
		return "fragmentation", fmt.Sprintf("frame %s%s delivered (%s reader) as %s: %s\ncontiguous: ok=%v err=%v\nfragmented: ok=%v err=%v", hx(frame), pre, reader, renderSteps(steps), d, base.OK, base.Err, got.OK, got.Err)
	}
	return "", ""
}

func renderSteps(st []guard.Step) string {
	var b bytes.Buffer
	for i, s := range st {
		if i > 0 {
			b.WriteByte(' ')
		}
		if i > 24 {
			fmt.Fprintf(&b, "...(%d reads)", len(st))
			break
		}
		fmt.Fprintf(&b, "%d", s.N)
		if s.Err != "" {
			b.WriteString("+" + s.Err)
		}
	}
	return b.String()
}

func c07Nontrivial(frame []byte, steps []guard.Step) (bool, string) {
	_, hdr, err := ref.FrameLen(frame)
	if err != nil {
		hdr = 2
	}
	pos := 0
	splitsBody, splitsRL, zero, dataEOF := false, false, false, false
	for _, s := range steps {
		if s.N == 0 && s.Err == "" {
			zero = true
		}
		if s.Err == "EOF" && s.N > 0 {
			dataEOF = true
		}
		pos += s.N
		if pos > hdr && pos < len(frame) {
			splitsBody = true
		}
		if pos > 1 && pos < hdr {
			splitsRL = true
		}
	}
	class := "plain"
	switch {
	case splitsRL:
		class = "splits-remaining-length"
	case zero && dataEOF:
		class = "zero-reads+data-with-eof"
	case zero:
		class = "zero-reads"
	case dataEOF:
		class = "data-with-eof"
	case splitsBody:
		class = "splits-body"
	}
	return splitsBody || splitsRL || zero || dataEOF, class
}

func TestC07(t *testing.T) {
	curProp = "C07"
	r := vf.NewRec("C07")
	defer r.Finish(t)
	guard.StartWatchdog(*vf.Out, vf.Label("C07"))

	for _, rf := range r.LoadReplays(t) {
		var c caseC07
		if err := json.Unmarshal(rf.Case, &c); err != nil {
			t.Fatalf("replay %s: %v", rf.Source, err)
		}
		_, msg := checkC07b(c)
		r.Case(vf.FPs("replay", string(c.Frame), fmt.Sprint(c.Steps)), true, "replay", func() interface{} { return c })
		if msg != "" {
			r.FailReplay(rf, "%s", msg)
		}
	}
	if vf.ReplayOnly() {
		return
	}

	// exhaustive part: every composition x 4 endings for short frames
	maxLen := 10
	if vf.Thorough() {
		maxLen = 14
	}
	frames := shortFrames(maxLen)
	done := 0
	for fi, f := range frames {
		if fi%*vf.Shards != *vf.Shard {
			continue
		}
		n := len(f)
		for i := uint(0); i < 1<<uint(n-1); i++ {
			ch := composition(n, i)
			for v := 0; v < 4; v++ {
				steps := schedule(ch, v&1 != 0, v&2 != 0)
				sig, msg := checkC07(f, steps, "script")
				nt, class := c07Nontrivial(f, steps)
				r.Case(vf.FPs(string(f), fmt.Sprint(steps)), nt, "exhaustive/"+class, func() interface{} {
					return map[string]interface{}{"frame": hx(f), "reads": renderSteps(steps)}
				})
				if msg != "" {
					r.Fail("fragmentation", caseC07{Frame: f, Steps: steps, Reader: "script"}, sig, "%s", msg)
					goto generated
				}
			}
		}
		done++
	}
	r.Exhaustive(fmt.Sprintf("all 2^(n-1) compositions x 4 endings for %d complete frames of <= %d bytes", len(frames), maxLen))

generated:
	r.Rapid(t, "schedules", vf.N(24000, 2000000), func(t *rapid.T) {
		frame, kind := genCompleteFrame(t, rapid.Bool().Draw(t, "small"))
		var before []byte
		if rapid.IntRange(0, 2).Draw(t, "before") == 0 {
			// another complete frame in front, on the same stream
			before = rapid.SampledFrom([][]byte{{0xc0, 0}, {0xd0, 0}, {0x40, 2, 0, 1}, {0xe0, 0}, {0x30, 5, 0, 1, 'a', 0, 'b'}}).Draw(t, "beforeframe")
			kind += "/after-another-frame"
		}
		total := len(before) + len(frame)
		ch := drawChunks(t, total)
		if len(before) > 0 && rapid.Bool().Draw(t, "cut-in-next-header") && len(frame) > 1 {
			// the read that brings the tail of the first frame also brings
			// the first 1..4 bytes of the next one
			k := rapid.IntRange(1, min(4, len(frame)-1)).Draw(t, "headerbytes")
			ch = []int{len(before) + k, len(frame) - k}
		}
		steps := schedule(ch, false, rapid.Bool().Draw(t, "eof-with-last"))
		// zero-length reads anywhere
		if rapid.Bool().Draw(t, "zeros") {
			var st []guard.Step
			for _, s := range steps {
				for rapid.IntRange(0, 3).Draw(t, "zero") == 0 {
					st = append(st, guard.Step{N: 0})
				}
				st = append(st, s)
			}
			steps = st
		}
		reader := rapid.SampledFrom(wrapKinds).Draw(t, "reader")
		if rapid.IntRange(0, 9).Draw(t, "zerorun") == 0 {
			// a long run of (0, nil) reads at one point of the delivery - a
			// polling reader (ring buffer, serial port with a read timeout)
			// that comes back empty many times before the next bytes. bufio
			// gives up after 100 empty reads by itself, so the run is only
			// offered through readers without such a layer.
			run := rapid.SampledFrom([]int{5, 50, 99, 100, 101, 150, 1000}).Draw(t, "zerorunlen")
			at := rapid.IntRange(0, len(steps)).Draw(t, "zerorunat")
			var st []guard.Step
			st = append(st, steps[:at]...)
			for i := 0; i < run; i++ {
				st = append(st, guard.Step{N: 0})
			}
			steps = append(st, steps[at:]...)
			reader = rapid.SampledFrom([]string{"script", "chunklen"}).Draw(t, "zerorunreader")
			kind += "/long-zero-run"
		}
		c := caseC07{Frame: frame, Steps: steps, Reader: reader, Before: before}
		sig, msg := checkC07b(c)
		nt, class := c07Nontrivial(frame, steps)
		if len(before) > 0 {
			nt = true
		}
		r.Case(vf.FPs(string(before), string(frame), fmt.Sprint(steps), reader), nt, kind+"/"+class+"/"+reader, func() interface{} {
			return map[string]interface{}{"frame": hx(frame), "before": hx(before), "reads": renderSteps(steps), "reader": reader}
		})
		if msg != "" {
			r.Fail("fragmentation", c, sig, "%s", msg)
			t.Fatalf("%s", msg)
		}
	})
}
