package props

import (
	"bufio"
	"bytes"
	"encoding/json"
	"fmt"
	"io"
	"strings"
	"testing"

	"github.com/gregoryv/mq"
	"pgregory.net/rapid"

	"verif/harness/api"
	"verif/harness/guard"
	"verif/harness/model"
	"verif/harness/ref"
	"verif/harness/vf"
)

// C14 — decoded packets own their memory and packets do not interfere.
// State machine over a pool of packets and the byte slices they were decoded
// from; invariant after every step: every packet not named by the action
// still observes its recorded snapshot.

type opC14 struct {
	Kind     string     `json:"kind"`             // unmarshal | readpacket | build | scribble | encode | render | setter | redecode | reuse-connect | transfer
	To       int        `json:"to,omitempty"`     // transfer: destination slot
	Pick     int        `json:"pick,omitempty"`   // transfer: which field
	Follow   bool       `json:"follow,omitempty"` // transfer: then give the destination (and the source list) another value
	Fresh    bool       `json:"fresh,omitempty"`  // transfer: the destination is a new packet of the source's type (forwarding)
	Frame    Hex        `json:"frame,omitempty"`
	New      bool       `json:"new,omitempty"`    // unmarshal into the constructor's value instead of the zero value
	Reader   string     `json:"reader,omitempty"` // readpacket: bytes.Reader (default), bytes.Buffer, bufio over the retained slice
	Slot     int        `json:"slot,omitempty"`
	Setter   string     `json:"setter,omitempty"`
	Index    int        `json:"index,omitempty"`
	AfterGob string     `json:"model_after_gob,omitempty"`
	ModelGob string     `json:"model_gob,omitempty"`
	Plan     []api.Step `json:"plan,omitempty"`
}

type caseC14 struct {
	Ops []opC14 `json:"ops"`
}

type slotC14 struct {
	p        mq.ControlPacket
	snap     model.Packet // current expected accessor values
	first    model.Packet // accessor values right after the decode
	retained []byte       // the slice the packet was decoded from (nil for built packets)
	frame    []byte       // pristine copy of the frame
	how      string
	isNew    bool          // unmarshalled into the constructor's value
	model    *model.Packet // for built packets
	plan     []api.Step
}

func checkC14(c caseC14) (sig, msg string) {
	guard.SetCurrent(func() []byte {
		return mustJSON(vf.Failure{Property: "C14", Kind: "hang", Case: mustJSON(c), Signature: "hang", Message: "a library call made for this case did not return"})
	})
	defer guard.SetCurrent(nil)
	var pool []*slotC14
	// one *bufio.Reader for the whole history, Reset before every use (a
	// reader taken from a pool)
	pooled := bufio.NewReaderSize(bytes.NewReader(nil), 64)
	verify := func(step int, op opC14, except int) bool {
		for i, s := range pool {
			if i == except {
				continue
			}
			var got model.Packet
			if pan := guard.Call(func() { got = api.Observe(s.p) }); pan != nil {
				sig, msg = "panic", fmt.Sprintf("accessors of packet %d panicked after step %d (%s): %v", i, step, op.Kind, pan.Value)
				return false
			}
			if d := model.Diff(got, s.snap); d != "" {
				sig = fmt.Sprintf("interference:%s:%s", op.Kind, typeName(s.snap.Type))
				msg = fmt.Sprintf("step %d (%s on slot %d) changed packet %d (%s, obtained by %s), which it does not name: %s", step, op.Kind, op.Slot, i, typeName(s.snap.Type), s.how, d)
				return false
			}
		}
		return true
	}
	for step, op := range c.Ops {
		except := -1
		switch op.Kind {
		case "unmarshal", "readpacket":
			first, _, body, ok := ref.Split(op.Frame)
			if !ok {
				continue
			}
			s := &slotC14{frame: append([]byte(nil), op.Frame...), how: op.Kind, isNew: op.New}
			var err error
			var pan *guard.Panic
			var tail []byte
			if op.Kind == "unmarshal" {
				// the body is a sub-slice of a larger read buffer: the bytes
				// behind it (spare capacity) belong to the caller as well
				big := make([]byte, len(body)+8)
				copy(big, body)
				for i := len(body); i < len(big); i++ {
					big[i] = 0xa5
				}
				s.retained = big[:len(body)]
				tail = big[len(body):]
				var v mq.ControlPacket
				if op.New {
					v = api.NewPacket(int(first >> 4))
				} else {
					v = api.NewZero(int(first >> 4))
				}
				pan = guard.Watched(len(op.Frame), func() []byte {
					return mustJSON(vf.Failure{Property: "C14", Kind: "hang", Case: mustJSON(c), Signature: "hang"})
				}, func() { err = v.UnmarshalBinary(s.retained) })
				s.p = v
			} else {
				s.retained = append([]byte(nil), op.Frame...)
				pan = guard.Watched(len(op.Frame), func() []byte {
					return mustJSON(vf.Failure{Property: "C14", Kind: "hang", Case: mustJSON(c), Signature: "hang"})
				}, func() {
					var rd io.Reader = bytes.NewReader(s.retained)
					switch op.Reader {
					case "bytes.Buffer":
						rd = bytes.NewBuffer(s.retained) // the buffer's storage IS the retained slice
					case "bufio":
						rd = bufio.NewReaderSize(bytes.NewReader(s.retained), 64)
					case "pooled-bufio":
						pooled.Reset(bytes.NewReader(s.retained))
						rd = pooled
					case "pooled-bufio-after-timeout":
						// the pooled reader's previous connection timed out in
						// the middle of this very frame's body
						if len(s.retained) > 3 {
							terr := &timeoutError{id: step}
							pooled.Reset(&guard.ScriptReader{Data: s.retained[:len(s.retained)-1], Injected: terr, After: terr})
							_, _ = mq.ReadPacket(pooled)
						}
						pooled.Reset(bytes.NewReader(s.retained))
						rd = pooled
					}
					s.p, err = mq.ReadPacket(rd)
				})
			}
			if pan != nil {
				return "panic", fmt.Sprintf("step %d decode panicked: %v", step, pan.Value)
			}
			if op.Kind == "unmarshal" {
				if !bytes.Equal(s.retained, body) {
					return "input-modified", fmt.Sprintf("step %d: UnmarshalBinary modified the bytes it was given: %s -> %s", step, hx(body), hx(s.retained))
				}
				for _, b := range tail {
					if b != 0xa5 {
						return "wrote-past-input", fmt.Sprintf("step %d: UnmarshalBinary of %s wrote into the caller's buffer behind the slice it was given (spare capacity): %s", step, hx(op.Frame), hx(tail))
					}
				}
			}
			if op.Kind == "readpacket" && strings.HasPrefix(op.Reader, "pooled-bufio") {
				// what the pooled reader was used for before is no business of
				// this frame: same outcome as from a reader of its own
				fq, ferr, fpan := read(append([]byte(nil), op.Frame...))
				if fpan == nil && (ferr == nil) != (err == nil) {
					return "history-dependent-decode", fmt.Sprintf("step %d: frame %s read through a pooled *bufio.Reader (%s) gives err=%v, through a reader of its own err=%v", step, hx(op.Frame), op.Reader, err, ferr)
				}
				if fpan == nil && ferr == nil && err == nil && s.p != nil && fq != nil {
					if d := model.Diff(api.Observe(s.p), api.Observe(fq)); d != "" {
						return "history-dependent-decode", fmt.Sprintf("step %d: frame %s read through a pooled *bufio.Reader (%s) decodes differently than through a reader of its own: %s", step, hx(op.Frame), op.Reader, d)
					}
				}
			}
			if err != nil || s.p == nil {
				if !verify(step, op, -1) {
					return
				}
				continue
			}
			s.snap = api.Observe(s.p)
			s.first = s.snap.Clone()
			pool = append(pool, s)
			except = len(pool) - 1
		case "build":
			m, err := unpackModel(op.ModelGob)
			if err != nil {
				return "harness", err.Error()
			}
			s := &slotC14{how: "build", model: &m, plan: op.Plan}
			s.p = api.Build(&m, op.Plan)
			s.snap = api.Observe(s.p)
			s.first = s.snap.Clone()
			pool = append(pool, s)
			except = len(pool) - 1
		case "scribble":
			if len(pool) == 0 {
				continue
			}
			s := pool[op.Slot%len(pool)]
			for i := range s.retained {
				s.retained[i] ^= 0xff
			}
			// nobody is named: the owner must be unaffected too
		case "encode":
			if len(pool) == 0 {
				continue
			}
			s := pool[op.Slot%len(pool)]
			guard.Call(func() { _, _, _ = api.Encode(s.p) })
		case "render":
			if len(pool) == 0 {
				continue
			}
			s := pool[op.Slot%len(pool)]
			guard.Call(func() { _ = s.p.String(); mq.Dump(&bytes.Buffer{}, s.p) })
		case "setter":
			if len(pool) == 0 {
				continue
			}
			i := op.Slot % len(pool)
			s := pool[i]
			m, err := unpackModel(op.AfterGob)
			if err != nil {
				return "harness", err.Error()
			}
			if m.Type != s.snap.Type {
				continue
			}
			for _, st := range api.Setters(m.Type) {
				if st.Name == op.Setter {
					guard.Call(func() { st.Apply(s.p, &m, op.Index) })
				}
			}
			guard.Call(func() { s.snap = api.Observe(s.p) })
			except = i
		case "transfer":
			// a value returned by an accessor of one packet is handed to a
			// setter of another (forwarding): afterwards the two are still
			// separate packets, whatever is set on either of them
			if len(pool) == 0 {
				continue
			}
			si, di := op.Slot%len(pool), op.To%len(pool)
			if typ := int(pool[si].snap.Type); op.Fresh && typ >= 1 && typ <= 15 {
				ns := &slotC14{p: api.NewPacket(typ), how: "constructor"}
				ns.snap = api.Observe(ns.p)
				ns.first = ns.snap.Clone()
				pool = append(pool, ns)
				di = len(pool) - 1
			}
			src, dst := pool[si], pool[di]
			what := ""
			if pan := guard.Call(func() { what = api.Transfer(src.p, dst.p, op.Pick) }); pan != nil {
				return "panic", fmt.Sprintf("step %d: handing a value of packet %d to a setter of packet %d panicked: %v", step, si, di, pan.Value)
			}
			guard.Call(func() { dst.snap = api.Observe(dst.p) })
			dst.frame, dst.model = nil, nil
			except = di
			if !op.Follow || what == "" {
				break
			}
			if !verify(step, op, di) { // handing a value over does not change the source
				return
			}
			given := dst.snap.Clone()
			if pan := guard.Call(func() { api.FollowUp(src.p, dst.p, what, op.Pick) }); pan != nil {
				return "panic", fmt.Sprintf("step %d: setter after handing %s of packet %d to packet %d panicked: %v", step, what, si, di, pan.Value)
			}
			guard.Call(func() { dst.snap = api.Observe(dst.p) })
			if what == "Filters" && si != di {
				// dst: what it had + src's filters, then one of its own; the
				// filter src got afterwards is src's alone
				want := append(append([]model.Filter(nil), given.Filters...), model.Filter{Filter: api.FollowOwnFilter, Opts: 2})
				if fmt.Sprint(dst.snap.Filters) != fmt.Sprint(want) {
					return "interference:transfer:SUBSCRIBE", fmt.Sprintf("step %d: packet %d was given the filters of packet %d and then one filter of its own; after one more filter was added to packet %d, packet %d holds %v, want %v", step, di, si, si, di, dst.snap.Filters, want)
				}
				wantSrc := append(append([]model.Filter(nil), src.snap.Filters...), model.Filter{Filter: api.FollowLaterFilter, Opts: 4})
				guard.Call(func() { src.snap = api.Observe(src.p) })
				src.frame, src.model = nil, nil
				if fmt.Sprint(src.snap.Filters) != fmt.Sprint(wantSrc) {
					return "interference:transfer:SUBSCRIBE", fmt.Sprintf("step %d: packet %d handed its filters to packet %d, which then got one of its own; one more filter added to packet %d gives %v, want %v", step, si, di, si, src.snap.Filters, wantSrc)
				}
			}
			// binary fields: only dst was written to, src is checked like everyone else
		case "twin":
			// the frame of a decoded pool packet is decoded once more; then one
			// element is added to the same list of each of the two, first to
			// the older, then to the newer: each keeps its own
			if len(pool) == 0 {
				continue
			}
			ai := op.Slot % len(pool)
			a := pool[ai]
			if a.frame == nil {
				continue
			}
			var q mq.ControlPacket
			var err error
			if a.how == "unmarshal" {
				first, _, body, _ := ref.Split(a.frame)
				v := api.NewZero(int(first >> 4))
				if a.isNew {
					v = api.NewPacket(int(first >> 4))
				}
				if pan := guard.Call(func() { err = v.UnmarshalBinary(append([]byte(nil), body...)) }); pan != nil {
					return "panic", fmt.Sprintf("step %d: decoding %s again panicked: %v", step, hx(a.frame), pan.Value)
				}
				q = v
			} else {
				var pan *guard.Panic
				q, err, pan = read(append([]byte(nil), a.frame...))
				if pan != nil {
					return "panic", fmt.Sprintf("step %d: decoding %s again panicked: %v", step, hx(a.frame), pan.Value)
				}
			}
			if err != nil || q == nil {
				continue
			}
			b := &slotC14{p: q, how: a.how + " (same frame again)", isNew: a.isNew}
			guard.Call(func() { b.snap = api.Observe(q) })
			b.first = b.snap.Clone()
			pool = append(pool, b)
			wantA, wantB := a.snap.Clone(), b.snap.Clone()
			what := ""
			if pan := guard.Call(func() {
				what = api.AppendOne(a.p, &wantA, "twin-a", op.Pick)
				api.AppendOne(b.p, &wantB, "twin-b", op.Pick)
			}); pan != nil {
				return "panic", fmt.Sprintf("step %d: adding to a list of a decoded packet panicked: %v", step, pan.Value)
			}
			if what != "" {
				var gotA, gotB model.Packet
				guard.Call(func() { gotA, gotB = api.Observe(a.p), api.Observe(b.p) })
				if d := model.Diff(gotA, wantA); d != "" {
					return "interference:twin:" + typeName(a.snap.Type), fmt.Sprintf("step %d: frame %s was decoded twice; %s on the first packet and then on the second: the first packet no longer holds what was added to it (got vs want): %s", step, hx(a.frame), what, d)
				}
				if d := model.Diff(gotB, wantB); d != "" {
					return "interference:twin:" + typeName(a.snap.Type), fmt.Sprintf("step %d: frame %s was decoded twice; %s on the first packet and then on the second: the second packet differs (got vs want): %s", step, hx(a.frame), what, d)
				}
				a.snap, b.snap = gotA, gotB
				a.frame, a.model = nil, nil
			} else {
				b.frame = append([]byte(nil), a.frame...)
			}
			except = ai
		case "attach-will":
			// a pool PUBLISH (decoded, carrying what a will never carries:
			// packet identifier, DUP, alias, subscription identifiers) is
			// handed to SetWill of a new CONNECT, which is then written. The
			// CONNECT is dropped again (it now shares the Publish by design);
			// the Publish itself must be what it was.
			if len(pool) == 0 {
				continue
			}
			src := pool[op.Slot%len(pool)]
			pub, ok := src.p.(*mq.Publish)
			if !ok {
				continue
			}
			if pan := guard.Call(func() {
				cn := mq.NewConnect()
				cn.SetClientID("c14")
				cn.SetWill(pub)
				_, _, _ = api.Encode(cn)
				_ = cn.String()
			}); pan != nil {
				return "panic", fmt.Sprintf("step %d: SetWill with a pool PUBLISH panicked: %v", step, pan.Value)
			}
		case "reuse":
			// a frame of the same type is decoded into a packet value that is
			// already in the pool (a read loop that reuses one value): whatever
			// that does to the value itself, every other packet - also one that
			// was handed a value of it earlier - stays as it is
			if len(pool) == 0 {
				continue
			}
			ti := op.Slot % len(pool)
			target := pool[ti]
			first, _, body, ok := ref.Split(op.Frame)
			if !ok || int(first>>4) != int(target.snap.Type) || target.snap.Type == model.CONNECT {
				continue // CONNECT has its own operation (the will it handed out)
			}
			reusedBuf := append([]byte(nil), body...)
			if pan := guard.Call(func() { _ = target.p.UnmarshalBinary(reusedBuf) }); pan != nil {
				return "panic", fmt.Sprintf("step %d: decoding %s into a packet that already holds one panicked: %v", step, hx(op.Frame), pan.Value)
			}
			target.retained = reusedBuf // the caller's buffer: a later scribble overwrites it
			guard.Call(func() { target.snap = api.Observe(target.p) })
			target.frame, target.model = nil, nil
			except = ti
		case "reuse-connect":
			// decode another CONNECT into a Connect value that is already in
			// the pool; the will message obtained from it before is a packet
			// of its own and must stay as it is
			var target *slotC14
			ti := -1
			for k := 0; k < len(pool); k++ {
				cand := pool[(op.Slot+k)%len(pool)]
				if cp, ok := cand.p.(*mq.Connect); ok && cp.Will() != nil {
					target, ti = cand, (op.Slot+k)%len(pool)
					break
				}
			}
			if target == nil {
				continue
			}
			w := target.p.(*mq.Connect).Will()
			known := false
			for _, sl := range pool {
				if sl.p == mq.ControlPacket(w) {
					known = true
				}
			}
			if !known {
				ws := &slotC14{p: w, how: "Will() of a pool CONNECT"}
				ws.snap = api.Observe(w)
				ws.first = ws.snap.Clone()
				pool = append(pool, ws)
			}
			if _, _, body, ok := ref.Split(op.Frame); ok {
				guard.Call(func() { _ = target.p.UnmarshalBinary(append([]byte(nil), body...)) })
			}
			guard.Call(func() { target.snap = api.Observe(target.p) })
			target.frame = nil // what it holds now is not the decode of its first frame
			except = ti
		case "redecode":
			if len(pool) == 0 {
				continue
			}
			s := pool[op.Slot%len(pool)]
			if s.frame == nil {
				if s.model != nil {
					// built through the API: building the same model again
					// must give the same accessor values as the first time
					var again model.Packet
					if pan := guard.Call(func() { again = api.Observe(api.Build(s.model, s.plan)) }); pan != nil {
						return "panic", fmt.Sprintf("step %d: rebuilding panicked: %v", step, pan.Value)
					}
					if d := model.Diff(again, s.first); d != "" {
						return "history-dependent-build", fmt.Sprintf("step %d: building the same %s through the API again gives other accessor values than the first time: %s", step, typeName(s.first.Type), d)
					}
				}
				continue
			}
			q, err, pan := read(append([]byte(nil), s.frame...))
			if s.how == "unmarshal" {
				// compare like with like: same entry point
				first, _, body, _ := ref.Split(s.frame)
				v := api.NewZero(int(first >> 4))
				if s.isNew {
					v = api.NewPacket(int(first >> 4))
				}
				pan = guard.Call(func() { err = v.UnmarshalBinary(append([]byte(nil), body...)) })
				q = v
			}
			if pan != nil || err != nil || q == nil {
				return "history-dependent-decode", fmt.Sprintf("step %d: frame %s was accepted earlier in the history but now gives err=%v panic=%v", step, hx(s.frame), err, pan)
			}
			if d := model.Diff(api.Observe(q), s.first); d != "" {
				return "history-dependent-decode", fmt.Sprintf("step %d: decoding frame %s again gives other accessor values than the first time: %s", step, hx(s.frame), d)
			}
		}
		if !verify(step, op, except) {
			return
		}
	}
	return "", ""
}

func TestC14(t *testing.T) {
	curProp = "C14"
	r := vf.NewRec("C14")
	defer r.Finish(t)
	guard.StartWatchdog(*vf.Out, vf.Label("C14"))

	for _, rf := range r.LoadReplays(t) {
		var c caseC14
		if err := json.Unmarshal(rf.Case, &c); err != nil {
			t.Fatalf("replay %s: %v", rf.Source, err)
		}
		_, msg := checkC14(c)
		r.Case(vf.FPs("replay", string(rf.Case)), true, "replay", func() interface{} { return len(c.Ops) })
		if msg != "" {
			r.FailReplay(rf, "%s", msg)
		}
	}
	if vf.ReplayOnly() {
		return
	}

	r.Rapid(t, "histories", vf.N(9000, 1500000), func(t *rapid.T) {
		n := rapid.IntRange(2, 24).Draw(t, "steps")
		var c caseC14
		live := 0
		nt := false
		var kinds []string
		types := map[int]uint8{}
		for i := 0; i < n; i++ {
			k := rapid.IntRange(0, 15).Draw(t, "op")
			if live == 0 && k > 3 {
				k = rapid.IntRange(0, 3).Draw(t, "op0")
			}
			var op opC14
			if k <= 2 && len(c.Ops) > 0 && rapid.IntRange(0, 3).Draw(t, "dupframe") == 0 {
				// decode a frame that was decoded before: two live packets from the same bytes
				var prior []opC14
				for _, o := range c.Ops {
					if o.Kind == "unmarshal" || o.Kind == "readpacket" {
						prior = append(prior, o)
					}
				}
				if len(prior) > 0 {
					op = prior[rapid.IntRange(0, len(prior)-1).Draw(t, "dupof")]
					types[live] = op.Frame[0] >> 4
					live++
					kinds = append(kinds, op.Kind+"(again)")
					c.Ops = append(c.Ops, op)
					continue
				}
			}
			switch {
			case k <= 1:
				op.Kind = "unmarshal"
				op.New = rapid.IntRange(0, 3).Draw(t, "new") == 0
				if k0 := rapid.IntRange(0, 7).Draw(t, "type0"); k0 == 0 {
					body := rapid.SliceOfN(rapid.Byte(), 1, 24).Draw(t, "undefined-body")
					op.Frame = ref.Reframe(byte(rapid.IntRange(0, 15).Draw(t, "nib")), body)
				} else if k0 == 3 {
					// PUBLISH with one of a few topic aliases, with or without
					// a topic name: frames that refer to the same alias
					m := model.New(model.PUBLISH)
					m.TopicAlias = uint16(rapid.IntRange(1, 3).Draw(t, "alias"))
					m.TopicName = rapid.SampledFrom([]string{"", "", "t/1", "t/2"}).Draw(t, "aliastopic")
					m.Payload = []byte("x")
					m.Normalize()
					op.Frame = ref.Canonical(&m)
					if rapid.Bool().Draw(t, "aliastriple") {
						// the alias used without a topic, then defined by another
						// frame, then the first frame decoded again: a topic
						// alias is connection state, not something a decoder keeps
						b := m.Clone()
						b.TopicName = ""
						a := m.Clone()
						a.TopicName = rapid.SampledFrom([]string{"t/1", "t/2"}).Draw(t, "aliasdef")
						first := opC14{Kind: "unmarshal", Frame: ref.Canonical(&b)}
						c.Ops = append(c.Ops, first)
						kinds = append(kinds, "unmarshal(alias, no topic)")
						types[live] = model.PUBLISH
						bslot := live
						live++
						op.Frame = ref.Canonical(&a)
						c.Ops = append(c.Ops, op)
						kinds = append(kinds, "unmarshal(alias defined)")
						types[live] = model.PUBLISH
						live++
						c.Ops = append(c.Ops, opC14{Kind: "redecode", Slot: bslot})
						kinds = append(kinds, "redecode")
						continue
					}
				} else if k0 == 4 {
					m := genSpecValid(t, model.SUBSCRIBE) // lists whose length is not their capacity
					op.Frame = ref.Canonical(&m)
				} else if k0 == 5 {
					// a packet with 3..7 user properties (and subscription
					// identifiers): append growth leaves spare capacity
					typ := rapid.SampledFrom([]uint8{model.PUBLISH, model.PUBLISH, model.CONNACK, model.PUBACK, model.SUBACK}).Draw(t, "listtype")
					m := genSpecValid(t, typ)
					m.UserProps = nil
					for j, n := 0, rapid.IntRange(3, 7).Draw(t, "nup"); j < n; j++ {
						m.UserProps = append(m.UserProps, model.KV{K: fmt.Sprintf("key%d", j), V: "value"})
					}
					if typ == model.PUBLISH && rapid.Bool().Draw(t, "withsubids") {
						m.SubIDs = nil
						for j, n := 0, rapid.IntRange(3, 7).Draw(t, "nsid"); j < n; j++ {
							m.SubIDs = append(m.SubIDs, uint32(j+1))
						}
					}
					m.Normalize()
					op.Frame = ref.Canonical(&m)
				} else if k0 == 2 {
					m := genSpecValid(t, model.CONNECT)
					if m.Will == nil {
						m.Will = &model.Will{Topic: "w1", Payload: []byte("p1"), ContentType: "ct1"}
						m.Normalize()
					}
					op.Frame = ref.Canonical(&m)
				} else if k0 == 1 {
					// a CONNECT that announces another protocol name / version
					// (structurally fine; decoded into the constructor's value
					// it overwrites fields that start out as shared defaults)
					m := genC01(t, model.CONNECT)
					m.ProtocolName = rapid.SampledFrom([]string{"mqtt", "MQIs", "M", "Mq", "MQTTX", ""}).Draw(t, "protoname")
					m.ProtocolVersion = rapid.SampledFrom([]uint8{4, 5, 3}).Draw(t, "protover")
					op.Frame = ref.Canonical(&m)
					op.New = rapid.Bool().Draw(t, "newconnect")
				} else {
					f, _ := genCompleteFrame(t, true)
					op.Frame = f
				}
				types[live] = op.Frame[0] >> 4
				live++ // optimistic; rejected decodes do not enter the pool, Slot is taken modulo
			case k == 2:
				op.Kind = "readpacket"
				f, _ := genCompleteFrame(t, true)
				if rapid.IntRange(0, 5).Draw(t, "rp-type0") == 0 {
					f = ref.Reframe(byte(rapid.IntRange(0, 15).Draw(t, "nib")), rapid.SliceOfN(rapid.Byte(), 1, 24).Draw(t, "undefined-body"))
				}
				if rapid.IntRange(0, 5).Draw(t, "rp-alias") == 0 {
					// frames that refer to the same topic alias, read from streams
					m := model.New(model.PUBLISH)
					m.TopicAlias = uint16(rapid.IntRange(1, 3).Draw(t, "alias"))
					m.TopicName = rapid.SampledFrom([]string{"", "", "t/1", "t/2", "t/3"}).Draw(t, "aliastopic")
					m.Payload = []byte("x")
					m.Normalize()
					f = ref.Canonical(&m)
				}
				op.Frame = f
				op.Reader = rapid.SampledFrom([]string{"bytes.Reader", "bytes.Buffer", "bytes.Buffer", "bufio", "pooled-bufio", "pooled-bufio-after-timeout"}).Draw(t, "rp-reader")
				types[live] = op.Frame[0] >> 4
				live++
			case k == 3:
				op.Kind = "build"
				typ := uint8(rapid.IntRange(1, 15).Draw(t, "type"))
				if rapid.IntRange(0, 3).Draw(t, "buildconnect") == 0 {
					typ = model.CONNECT
				}
				m := genC01(t, typ)
				op.ModelGob, op.Plan = packModel(m), drawPlan(t, &m)
				types[live] = typ
				live++
			case k <= 6:
				op.Kind = "scribble"
				op.Slot = rapid.IntRange(0, 5).Draw(t, "slot")
				if live >= 2 {
					nt = true
				}
			case k == 7:
				op.Kind = "encode"
				op.Slot = rapid.IntRange(0, 5).Draw(t, "slot")
			case k == 8:
				op.Kind = "render"
				op.Slot = rapid.IntRange(0, 5).Draw(t, "slot")
			case k <= 10:
				op.Kind = "setter"
				op.Slot = rapid.IntRange(0, 5).Draw(t, "slot")
				typ := uint8(rapid.IntRange(1, 15).Draw(t, "settertype"))
				if tt, ok := types[op.Slot%live]; ok && tt >= 1 && tt <= 15 {
					typ = tt // most decodes succeed, so this is usually the slot's type
				}
				ss := api.Setters(typ)
				if len(ss) == 0 {
					continue
				}
				s := ss[rapid.IntRange(0, len(ss)-1).Draw(t, "setter")]
				m := model.New(typ)
				mutateField(t, &m, s.Name)
				op.Setter, op.AfterGob = s.Name, packModel(m)
				if s.IsList {
					op.Index = listLenOf(&m, s.Name) - 1
				}
			case k == 15:
				op.Kind = "attach-will"
				op.Slot = rapid.IntRange(0, 5).Draw(t, "slot")
				var pubs []int
				for idx := 0; idx < live; idx++ {
					if types[idx] == model.PUBLISH {
						pubs = append(pubs, idx)
					}
				}
				if len(pubs) > 0 {
					op.Slot = pubs[rapid.IntRange(0, len(pubs)-1).Draw(t, "pubslot")]
				}
				nt = true
			case k == 14:
				op.Kind = "reuse"
				op.Slot = rapid.IntRange(0, 5).Draw(t, "slot")
				typ := types[op.Slot%live]
				if typ < 1 || typ > 15 {
					typ = model.PUBLISH
				}
				m := genSpecValid(t, typ)
				op.Frame = ref.Canonical(&m)
				nt = true
			case k == 13:
				op.Kind = "twin"
				op.Slot = rapid.IntRange(0, 5).Draw(t, "slot")
				op.Pick = rapid.IntRange(0, 7).Draw(t, "pick")
				types[live] = types[op.Slot%live]
				live++
				nt = true
			case k == 12:
				op.Kind = "transfer"
				op.Slot = rapid.IntRange(0, 5).Draw(t, "slot")
				op.To = rapid.IntRange(0, 5).Draw(t, "to")
				op.Pick = rapid.IntRange(0, 55).Draw(t, "pick")
				op.Follow = rapid.Bool().Draw(t, "follow")
				op.Fresh = rapid.IntRange(0, 2).Draw(t, "fresh") == 0
				var subs []int
				for idx := 0; idx < live; idx++ {
					if types[idx] == model.SUBSCRIBE {
						subs = append(subs, idx)
					}
				}
				if len(subs) > 0 && rapid.Bool().Draw(t, "fromsubscribe") {
					op.Slot = subs[rapid.IntRange(0, len(subs)-1).Draw(t, "subslot")]
				}
				if op.Fresh {
					types[live] = types[op.Slot%live]
					live++
				}
				if live >= 2 {
					nt = true
				}
			default:
				op.Kind = "redecode"
				op.Slot = rapid.IntRange(0, 5).Draw(t, "slot")
				if rapid.IntRange(0, 2).Draw(t, "reuseconnect") == 0 {
					op.Kind = "reuse-connect"
					m := genSpecValid(t, model.CONNECT)
					if m.Will == nil {
						m.Will = &model.Will{Topic: "w2", Payload: []byte("p2"), QoS: 1, ContentType: "ct2"}
						m.Normalize()
					}
					op.Frame = ref.Canonical(&m)
				}
			}
			kinds = append(kinds, op.Kind)
			c.Ops = append(c.Ops, op)
		}
		sig, msg := checkC14(c)
		r.Case(vf.FPs(string(mustJSON(c))), nt, fmt.Sprintf("steps=%d", len(c.Ops)/8*8), func() interface{} {
			return map[string]interface{}{"ops": kinds}
		})
		if msg != "" {
			r.Fail("history", c, sig, "%s", msg)
			t.Fatalf("%s", msg)
		}
	})
}
