package props

import (
	"bytes"
	"encoding/json"
	"fmt"
	"testing"

	"pgregory.net/rapid"

	"verif/harness/api"
	"verif/harness/gen"
	"verif/harness/guard"
	"verif/harness/model"
	"verif/harness/ref"
	"verif/harness/vf"
)

// C03 — every valid MQTT v5.0 frame is accepted and decoded to its values.
//
// Domain: frames from the reference encoder over spec-valid abstract packets
// and all styles (property order, explicit zeros, short forms).
// Oracle: ReadPacket returns nil error, matching type, accessors == model.

type styleJSON struct {
	PropKeys     []int `json:"prop_keys,omitempty"`
	WillPropKeys []int `json:"will_prop_keys,omitempty"`
	ExplicitZero []int `json:"explicit_zero,omitempty"`
	Form         int   `json:"form"`
}

func (s styleJSON) style() ref.Style {
	st := ref.Style{PropKeys: s.PropKeys, WillPropKeys: s.WillPropKeys, Form: s.Form, ExplicitZero: map[byte]bool{}}
	for _, id := range s.ExplicitZero {
		st.ExplicitZero[byte(id)] = true
	}
	return st
}

var explicitZeroCandidates = []int{0x01, 0x02, 0x03, 0x09, 0x11, 0x12, 0x13, 0x15, 0x16, 0x17, 0x18, 0x19, 0x1a, 0x1c, 0x1f, 0x22, 0x24, 0x25, 0x28, 0x29, 0x2a}

func drawStyle(t *rapid.T) styleJSON {
	var s styleJSON
	if rapid.IntRange(0, 3).Draw(t, "style.order") > 0 {
		s.PropKeys = rapid.SliceOfN(rapid.IntRange(0, 12), 1, 24).Draw(t, "style.propkeys")
		s.WillPropKeys = rapid.SliceOfN(rapid.IntRange(0, 12), 1, 12).Draw(t, "style.willpropkeys")
	}
	switch rapid.IntRange(0, 3).Draw(t, "style.zeros") {
	case 0:
	case 1:
		s.ExplicitZero = append([]int(nil), explicitZeroCandidates...)
	default:
		for _, id := range explicitZeroCandidates {
			if rapid.IntRange(0, 3).Draw(t, "style.zero") == 0 {
				s.ExplicitZero = append(s.ExplicitZero, id)
			}
		}
	}
	s.Form = rapid.IntRange(0, 2).Draw(t, "style.form")
	return s
}

type caseC03 struct {
	ModelGob string    `json:"model_gob"`
	Model    string    `json:"model"`
	Style    styleJSON `json:"style"`
	Frame    Hex       `json:"frame,omitempty"`   // informative; rebuilt from model+style on replay
	Prelude  []preOp   `json:"prelude,omitempty"` // unrelated decodes made before (state leaking between packets)
}

// genSpecValid draws an abstract packet every encoding of which is a valid frame.
func genSpecValid(t *rapid.T, typ uint8) model.Packet {
	o := gen.Opts{WellFormed: true, SpecValid: true, AllowEmptyUserKey: true}
	m := gen.Packet(t, typ, o)
	if typ == model.DISCONNECT {
		gen.DisconnectProps(t, &m, o)
	}
	if rapid.IntRange(0, 24).Draw(t, "steerproplen") == 0 {
		steerPropertyLength(&m, rapid.SampledFrom(propLenTargets).Draw(t, "proplentarget"))
	}
	return m
}

// ownEncoding returns what the library itself emits for the model, or nil if
// the model cannot be expressed through the API.
func ownEncoding(m *model.Packet) []byte {
	if m.Type == model.DISCONNECT && (m.ReasonString != "" || m.SessionExpiry != 0 || m.ServerReference != "") && !api.DisconnectHasSetters() {
		return nil
	}
	var out []byte
	if pan := guard.Call(func() {
		p := api.BuildDefault(m)
		out, _, _ = api.Encode(p)
	}); pan != nil {
		return nil
	}
	return out
}

func checkC03(m model.Packet, st styleJSON, prelude ...preOp) (frame []byte, sig, msg string, harness bool) {
	guard.SetCurrent(func() []byte {
		return mustJSON(vf.Failure{Property: "C03", Kind: "hang", Case: mustJSON(caseC03{ModelGob: packModel(m), Model: m.String(), Style: st, Prelude: prelude}), Signature: "hang", Message: "a library call made for this case did not return"})
	})
	defer guard.SetCurrent(nil)
	runPrelude(prelude)
	frame, _ = ref.Encode(&m, st.style())
	// self-check of the trusted base: the reference decoder must read back
	// the model from the reference encoder's frame.
	back, err := ref.DecodeStrict(frame)
	if err != nil {
		return frame, "harness", fmt.Sprintf("reference codec self-check: strict decoder rejects reference frame %s: %v", hx(frame), err), true
	}
	want := m.Clone()
	want.Normalize()
	if d := model.Diff(back, want); d != "" {
		return frame, "harness", fmt.Sprintf("reference codec self-check: %s", d), true
	}
	sig, msg = compareWithFrame(frame, want)
	return frame, sig, msg, false
}

// compareWithFrame: the library must accept frame and report the values in
// want (what a specification-faithful reading of frame gives).
func compareWithFrame(frame []byte, want model.Packet) (sig, msg string) {
	m := want
	q, err, pan := read(frame)
	if pan != nil {
		return "read-panic", fmt.Sprintf("ReadPacket panicked on valid frame %s: %v\n%s", hx(frame), pan.Value, pan.Stack)
	}
	if err != nil {
		return "reject:" + typeName(m.Type), fmt.Sprintf("ReadPacket rejects a valid %s frame %s: %v", typeName(m.Type), hx(frame), err)
	}
	if q == nil {
		return "nil-nil", "ReadPacket returned (nil, nil)"
	}
	if api.TypeOf(q) != int(m.Type) {
		return "type", fmt.Sprintf("frame is %s, read %T", typeName(m.Type), q)
	}
	if m.Type == model.DISCONNECT && !api.DisconnectHasProps() {
		// no accessors to compare: acceptance only, plus what exists
		want.ReasonString, want.SessionExpiry, want.ServerReference = "", 0, ""
	}
	got := api.Observe(q)
	if d := model.Diff(got, want); d != "" {
		return "field:" + fieldOf(d), fmt.Sprintf("accessors differ from the values the frame carries (got vs frame) %s\nframe %s", d, hx(frame))
	}
	return "", ""
}

func TestC03(t *testing.T) {
	r := vf.NewRec("C03")
	defer r.Finish(t)
	guard.StartWatchdog(*vf.Out, vf.Label("C03"))

	for _, rf := range r.LoadReplays(t) {
		var c caseC03
		if err := json.Unmarshal(rf.Case, &c); err != nil {
			t.Fatalf("replay %s: %v", rf.Source, err)
		}
		if c.ModelGob == "" && len(c.Frame) > 0 {
			// a frame found by the native fuzz target: valid by the strict
			// reference reading, compared with the values that reading gives
			msg := checkC03Frame(c.Frame)
			r.Case(vf.FP(c.Frame), true, "replay/frame", func() interface{} { return hx(c.Frame) })
			if msg != "" {
				r.FailReplay(rf, "%s", msg)
			}
			continue
		}
		m, err := unpackModel(c.ModelGob)
		if err != nil {
			t.Fatalf("replay %s: %v", rf.Source, err)
		}
		frame, _, msg, _ := checkC03(m, c.Style, c.Prelude...)
		r.Case(vf.FP(frame), true, "replay/"+typeName(m.Type), func() interface{} { return c.Model })
		if msg != "" {
			r.FailReplay(rf, "%s", msg)
		}
	}
	if vf.ReplayOnly() {
		return
	}

	// a property section that needs the four-byte form of its length
	if *vf.Shard == 0 {
		for _, target := range []int{2097151, 2097152, 2097160} {
			pm := model.New(model.PUBLISH)
			pm.TopicName = "t"
			total := 0
			for total+60006+1000 < target {
				pm.UserProps = append(pm.UserProps, model.KV{K: "k", V: string(bytes.Repeat([]byte{'v'}, 60000))})
				total += 60006
			}
			pm.UserProps = append(pm.UserProps, model.KV{K: "k", V: string(bytes.Repeat([]byte{'w'}, target-total-6))})
			pm.Normalize()
			frame, sig, msg, _ := checkC03(pm, styleJSON{Form: 2})
			r.Case(vf.FPs("proplen", fmt.Sprint(target)), true, "PUBLISH/large-property-section", func() interface{} {
				return map[string]interface{}{"property_length": target, "frame_bytes": len(frame)}
			})
			if msg != "" {
				r.Fail("accept", caseC03{ModelGob: packModel(pm), Model: pm.String(), Style: styleJSON{Form: 2}}, sig, "%s", msg)
				break
			}
		}
	}

	perType := vf.N(1600, 400000)
	for typ := uint8(1); typ <= 15; typ++ {
		typ := typ
		n := perType
		if typ == model.PINGREQ || typ == model.PINGRESP {
			n = 3
		}
		r.Rapid(t, typeName(typ), n, func(t *rapid.T) {
			m := genSpecValid(t, typ)
			st := drawStyle(t)
			prelude := drawPrelude(t)
			frame, sig, msg, harness := checkC03(m, st, prelude...)
			own := ownEncoding(&m)
			foreign := !bytes.Equal(own, frame)
			class := typeName(typ) + "/own-form"
			if foreign {
				class = typeName(typ) + "/foreign-form"
			}
			r.Case(vf.FP(frame), foreign, class, func() interface{} {
				return map[string]interface{}{"model": m.String(), "frame": hx(frame), "style": st}
			})
			// thorough: every order of the properties for packets with few of them
			if msg == "" && vf.Thorough() && rapid.IntRange(0, 7).Draw(t, "allperms") == 0 {
				np := 0
				for _, sec := range ref.Tree(&m, st.style()).PropSections() {
					if len(sec.Kids) > np {
						np = len(sec.Kids)
					}
				}
				if np >= 2 && np <= 5 {
					perm := make([]int, np)
					for i := range perm {
						perm[i] = i
					}
					permute(perm, 0, func(p []int) bool {
						st2 := st
						st2.PropKeys = append([]int(nil), p...)
						st2.WillPropKeys = append([]int(nil), p...)
						f2, s2, m2, _ := checkC03(m, st2)
						r.Case(vf.FP(f2), true, typeName(typ)+"/all-permutations", nil)
						if m2 != "" {
							st, frame, sig, msg = st2, f2, s2, m2
							return false
						}
						return true
					})
				}
			}
			if msg != "" {
				kind := "accept"
				if harness {
					kind = "harness"
				}
				r.Fail(kind, caseC03{ModelGob: packModel(m), Model: m.String(), Style: st, Frame: frame, Prelude: prelude}, sig, "%s\nmodel: %s", msg, m.String())
				t.Fatalf("%s", msg)
			}
		})
	}
}

// permute calls f with every permutation of a (in place); f returns false to stop.
func permute(a []int, k int, f func([]int) bool) bool {
	if k == len(a) {
		return f(a)
	}
	for i := k; i < len(a); i++ {
		a[k], a[i] = a[i], a[k]
		if !permute(a, k+1, f) {
			a[k], a[i] = a[i], a[k]
			return false
		}
		a[k], a[i] = a[i], a[k]
	}
	return true
}

// checkC03Frame judges raw bytes: if the strict reference decoder accepts
// them as exactly one structurally valid MQTT v5.0 frame, the library must
// accept them too and report the values the reference reading gives.
func checkC03Frame(data []byte) string {
	want, remarks, err := ref.DecodePedantic(data)
	if err != nil || len(remarks) > 0 {
		// not in the valid-frame language as far as the strict reading goes,
		// or carrying a value the specification forbids although it parses
		// (Receive Maximum 0, ill-formed UTF-8, wildcard in a topic name, ...):
		// a decoder may reject those, nothing is claimed
		return ""
	}
	_, msg := compareWithFrame(data, want)
	return msg
}

// FuzzValidFrame: coverage-guided search for a valid frame (by the strict
// reference reading) that the library rejects or reads differently. The
// domain filter is the reference decoder, so the fuzzer explores the valid-
// frame language from the byte side instead of from abstract packets.
func FuzzValidFrame(f *testing.F) {
	for _, s := range fuzzSeeds() {
		f.Add(s)
	}
	f.Fuzz(func(t *testing.T, data []byte) {
		if len(data) > 1<<17 {
			return
		}
		if msg := checkC03Frame(data); msg != "" {
			t.Fatalf("%s", msg)
		}
	})
}
