package props

import (
	"bytes"
	"encoding/json"
	"errors"
	"fmt"
	"io"
	"net"
	"os"
	"syscall"
	"testing"

	"pgregory.net/rapid"

	"verif/harness/guard"
	"verif/harness/ref"
	"verif/harness/vf"
)

// C08 — a stream that ends or fails inside a packet is reported.

type caseC08 struct {
	Frame     Hex    `json:"frame"`
	Cut       int    `json:"cut"`                  // bytes delivered before the failure
	Failure   string `json:"failure"`              // "EOF" | "X" (fresh error value) | "UEOF" (io.ErrUnexpectedEOF itself) | "WUEOF" / "WEOF" (an error wrapping io.ErrUnexpectedEOF / io.EOF, as TLS does)
	NonSticky bool   `json:"non_sticky,omitempty"` // the failure is reported once, afterwards the stream just ends
	Together  bool   `json:"together"`             // failure arrives together with the last delivered bytes
	Delivery  string `json:"delivery"`             // "contiguous" | "bytewise" | "chunks"
	Chunks    []int  `json:"chunks,omitempty"`
	Reader    string `json:"reader,omitempty"` // "" / script, bufio16, bufio4096
}

func checkC08(c caseC08) (sig, msg string) {
	var injected error = &guard.InjectedError{ID: c.Cut + 1}
	switch c.Failure {
	case "UEOF":
		injected = io.ErrUnexpectedEOF
	case "WUEOF":
		injected = fmt.Errorf("tls: %w", io.ErrUnexpectedEOF)
	case "WEOF":
		injected = fmt.Errorf("conn: %w", io.EOF)
	case "TIMEOUT":
		injected = &timeoutError{id: c.Cut}
	case "DEADLINE":
		injected = os.ErrDeadlineExceeded
	case "CLOSEDPIPE":
		injected = io.ErrClosedPipe
	case "NOPROGRESS":
		injected = io.ErrNoProgress
	case "SHORTBUF":
		injected = io.ErrShortBuffer
	case "NETCLOSED":
		injected = net.ErrClosed
	case "OPERR":
		injected = &net.OpError{Op: "read", Net: "tcp", Err: &timeoutError{id: c.Cut}}
	case "WRAPNET":
		// an adapter layer's error that wraps a net.Error: E itself is what
		// errors.Is must find, not the net.Error inside it
		injected = fmt.Errorf("ws bridge: %w", &net.OpError{Op: "read", Net: "tcp", Err: syscall.ECONNRESET})
	case "WRAPCLOSED":
		injected = fmt.Errorf("session 7: %w", net.ErrClosed)
	case "JOINED":
		injected = errors.Join(&guard.InjectedError{ID: c.Cut + 1}, io.ErrClosedPipe)
	case "ERRNO":
		injected = syscall.ECONNRESET
	case "CUSTOMIS":
		injected = &pickyError{id: c.Cut}
	}
	var fail error = io.EOF
	if c.Failure != "EOF" {
		fail = injected
	}
	prefix := c.Frame[:c.Cut]
	var chunks []int
	switch c.Delivery {
	case "bytewise":
		for i := 0; i < c.Cut; i++ {
			chunks = append(chunks, 1)
		}
	case "chunks":
		chunks = c.Chunks
	default:
		if c.Cut > 0 {
			chunks = []int{c.Cut}
		}
	}
	var steps []guard.Step
	for i, n := range chunks {
		s := guard.Step{N: n}
		if c.Together && i == len(chunks)-1 {
			s.Err = "X"
			if c.Failure == "EOF" {
				s.Err = "EOF"
			}
		}
		steps = append(steps, s)
	}
	sr := &guard.ScriptReader{Data: prefix, Steps: steps, Injected: injected, After: fail, NonSticky: c.NonSticky}
	if c.Delivery == "contiguous" && !c.Together {
		sr.Steps = nil // deliver as much as each Read asks for, then the failure
	}
	rd, _ := wrappedStream(c.Reader, sr)
	if c.Failure == "EOF" && (c.Reader == "bytes.Buffer" || c.Reader == "bytes.Reader") {
		// the stream simply ends: a buffer that holds the prefix and no more
		if c.Reader == "bytes.Buffer" {
			rd = bytes.NewBuffer(append([]byte(nil), prefix...))
		} else {
			rd = bytes.NewReader(prefix)
		}
	}
	got := readFrom(rd, len(c.Frame), func() interface{} {
		return vf.Failure{Property: "C08", Kind: "hang", Case: mustJSON(c), Signature: "hang"}
	})
	desc := fmt.Sprintf("frame %s cut after %d of %d bytes, %s %s, %s delivery", hx(c.Frame), c.Cut, len(c.Frame), c.Failure, map[bool]string{true: "together with the last bytes", false: "on the next read"}[c.Together], c.Delivery)
	if got.Panic != nil {
		return "panic", fmt.Sprintf("%s: panic %v", desc, got.Panic.Value)
	}
	if got.PacketWithError {
		return "packet-together-with-error", fmt.Sprintf("%s: ReadPacket returned an error (%v) together with a packet value that is not nil", desc, got.Err)
	}
	if got.OK {
		return "packet-from-truncated-stream", fmt.Sprintf("%s: ReadPacket returned a packet (%s) although only a proper prefix of the frame was delivered", desc, typeName(uint8(got.Type)))
	}
	if got.Err == nil {
		return "nil-nil", fmt.Sprintf("%s: ReadPacket returned (nil, nil)", desc)
	}
	if c.Failure != "EOF" && !errors.Is(got.Err, injected) {
		return "error-not-wrapped", fmt.Sprintf("%s: errors.Is(err, injected) is false, err = %v", desc, got.Err)
	}
	if c.Failure == "EOF" && c.Cut == 0 && !errors.Is(got.Err, io.EOF) {
		return "eof-at-boundary", fmt.Sprintf("%s: stream ended on a frame boundary but errors.Is(err, io.EOF) is false, err = %v", desc, got.Err)
	}
	return "", ""
}

// pickyError has its own Is method and unwraps to io.EOF: a value for which
// errors.Is(x, io.EOF) is true although it is a failure of its own.
type pickyError struct{ id int }

func (e *pickyError) Error() string        { return fmt.Sprintf("picky #%d", e.id) }
func (e *pickyError) Unwrap() error        { return io.EOF }
func (e *pickyError) Is(target error) bool { return target == e }

// timeoutError is a net.Error-like transport failure: temporary, timed out.
type timeoutError struct{ id int }

func (e *timeoutError) Error() string   { return fmt.Sprintf("i/o timeout #%d", e.id) }
func (e *timeoutError) Timeout() bool   { return true }
func (e *timeoutError) Temporary() bool { return true }

func c08Class(c caseC08) (bool, string) {
	_, hdr, err := ref.FrameLen(c.Frame)
	if err != nil {
		hdr = 2
	}
	where := "header"
	if c.Cut >= hdr {
		where = "body"
	}
	if c.Cut == 0 {
		where = "boundary"
	}
	tg := "next-read"
	if c.Together {
		tg = "with-data"
	}
	rk := c.Reader
	if rk == "" {
		rk = "script"
	}
	return c.Cut >= hdr, where + "/" + c.Failure + "/" + tg + "/" + c.Delivery + "/" + rk
}

func TestC08(t *testing.T) {
	curProp = "C08"
	r := vf.NewRec("C08")
	defer r.Finish(t)
	guard.StartWatchdog(*vf.Out, vf.Label("C08"))

	for _, rf := range r.LoadReplays(t) {
		var c caseC08
		if err := json.Unmarshal(rf.Case, &c); err != nil {
			t.Fatalf("replay %s: %v", rf.Source, err)
		}
		_, msg := checkC08(c)
		r.Case(vf.FPs("replay", string(c.Frame), fmt.Sprint(c.Cut, c.Failure, c.Together, c.Delivery)), true, "replay", func() interface{} { return c })
		if msg != "" {
			r.FailReplay(rf, "%s", msg)
		}
	}
	if vf.ReplayOnly() {
		return
	}

	r.Rapid(t, "faults", vf.N(1200, 250000), func(t *rapid.T) {
		frame, kind := genCompleteFrame(t, rapid.IntRange(0, 2).Draw(t, "small") > 0)
		var cuts []int
		if len(frame) <= 512 {
			for k := 0; k < len(frame); k++ {
				cuts = append(cuts, k)
			}
		} else {
			// field boundaries +-1 are reached by the short frames; sample
			// here: first bytes, last bytes and random offsets
			for k := 0; k < 8 && k < len(frame); k++ {
				cuts = append(cuts, k)
			}
			for i := 0; i < 24; i++ {
				cuts = append(cuts, rapid.IntRange(0, len(frame)-1).Draw(t, "cut"))
			}
			cuts = append(cuts, len(frame)-1, len(frame)-2)
		}
		for _, k := range cuts {
			c := caseC08{Frame: frame, Cut: k}
			c.Failure = rapid.SampledFrom([]string{"EOF", "EOF", "EOF", "EOF", "X", "X", "X", "UEOF", "WUEOF", "WEOF", "TIMEOUT", "DEADLINE", "CLOSEDPIPE", "NOPROGRESS", "SHORTBUF", "NETCLOSED", "OPERR", "WRAPNET", "WRAPCLOSED", "JOINED", "ERRNO", "CUSTOMIS"}).Draw(t, "failure")
			c.NonSticky = c.Failure != "EOF" && rapid.IntRange(0, 2).Draw(t, "nonsticky") == 0
			c.Together = k > 0 && rapid.Bool().Draw(t, "together")
			c.Delivery = rapid.SampledFrom([]string{"contiguous", "bytewise", "chunks"}).Draw(t, "delivery")
			if c.Delivery == "chunks" {
				c.Chunks = drawChunks(t, k)
			}
			if c.Delivery == "bytewise" && k > 4096 {
				c.Delivery = "contiguous"
			}
			c.Reader = rapid.SampledFrom([]string{"script", "script", "script", "bufio16", "bufio4096", "chunklen", "bytes.Buffer", "bytes.Reader"}).Draw(t, "reader")
			if (c.Reader == "bytes.Buffer" || c.Reader == "bytes.Reader") && c.Failure != "EOF" {
				c.Reader = "chunklen" // in-memory readers can only end, not fail
			}
			sig, msg := checkC08(c)
			nt, class := c08Class(c)
			r.Case(vf.FPs(string(frame), fmt.Sprint(c.Cut, c.Failure, c.Together, c.Delivery, c.Chunks, c.Reader, c.NonSticky)), nt, kind+"/"+class, func() interface{} {
				s := c
				if len(s.Frame) > 64 {
					s.Frame = append(Hex(nil), s.Frame[:64]...)
				}
				return s
			})
			if msg != "" {
				r.Fail("fault", c, sig, "%s", msg)
				t.Fatalf("%s", msg)
			}
		}
	})
}
