// Package props holds one test per listed property (TestC01 ... TestC19).
// Each test states the property as an executable oracle over generated
// cases, counts what it generated, and writes a shard result for the driver.
package props

import (
	"bufio"
	"bytes"
	"encoding/base64"
	"encoding/gob"
	"encoding/hex"
	"encoding/json"
	"fmt"
	"io"
	"strings"
	"syscall"
	"time"
	"unsafe"

	"github.com/gregoryv/mq"
	"pgregory.net/rapid"

	"verif/harness/api"
	"verif/harness/gen"
	"verif/harness/guard"
	"verif/harness/model"
	"verif/harness/ref"
	"verif/harness/vf"
)

// Hex is a byte string that is hex-encoded in JSON.
type Hex []byte

func (h Hex) MarshalJSON() ([]byte, error) { return json.Marshal(hex.EncodeToString(h)) }
func (h *Hex) UnmarshalJSON(b []byte) error {
	var s string
	if err := json.Unmarshal(b, &s); err != nil {
		return err
	}
	d, err := hex.DecodeString(s)
	if err != nil {
		return err
	}
	*h = d
	return nil
}

// hx renders bytes for messages, shortened in the middle when long.
func hx(b []byte) string {
	if len(b) <= 48 {
		return hex.EncodeToString(b)
	}
	return fmt.Sprintf("%s...%s (%d bytes)", hex.EncodeToString(b[:32]), hex.EncodeToString(b[len(b)-8:]), len(b))
}

// readerFor offers a frame through one of several concrete reader types,
// chosen by a hash of the frame (so a case always replays the same way):
// *bytes.Reader, *bytes.Buffer, *bufio.Reader, or a plain reader that hides
// every optional interface. Code that type-asserts its reader takes other
// paths for them; every one of them delivers the same bytes.
func readerFor(frame []byte) (io.Reader, string) {
	switch vf.FP(frame) % 5 {
	case 0:
		return bytes.NewBuffer(append([]byte(nil), frame...)), "bytes.Buffer"
	case 1:
		return bufio.NewReaderSize(bytes.NewReader(frame), 16), "bufio"
	case 2:
		return struct{ io.Reader }{bytes.NewReader(frame)}, "plain"
	}
	return bytes.NewReader(frame), "bytes.Reader"
}

// read decodes one frame with ReadPacket from an in-memory reader (see
// readerFor), under the panic guard and watchdog.
func read(frame []byte) (p mq.ControlPacket, err error, pan *guard.Panic) {
	pan = guard.Watched(len(frame), func() []byte {
		b, _ := json.Marshal(vf.Failure{Property: curProp, Kind: "hang", Case: mustJSON(caseFrame{Frame: frame, Entry: "ReadPacket"}), Signature: "hang", Message: "in flight"})
		return b
	}, func() {
		rd, _ := readerFor(frame)
		p, err = mq.ReadPacket(rd)
	})
	return
}

type caseFrame struct {
	Frame Hex    `json:"frame"`
	Entry string `json:"entry"` // "ReadPacket" or "Unmarshal:<type>"
	Note  string `json:"note,omitempty"`
	// History: frames decoded before Frame, whose packets are kept and must
	// not change while Frame is decoded.
	History []preOp `json:"history,omitempty"`
	// Base: the intact frame Frame was derived from by raising one inner
	// length field beyond the data (C05: the damage must not cost memory).
	Base Hex `json:"base,omitempty"`
}

func mustJSON(v interface{}) json.RawMessage {
	b, err := json.Marshal(v)
	if err != nil {
		panic(err)
	}
	return b
}

// write encodes p with WriteTo under the panic guard.
func write(p mq.ControlPacket) (frame []byte, n int64, err error, pan *guard.Panic) {
	pan = guard.Call(func() {
		frame, n, err = api.Encode(p)
	})
	return
}

// sizeClass names the size of the remaining length field of a frame.
func sizeClass(frame []byte) string {
	if len(frame) < 2 {
		return "rl?"
	}
	n := 1
	for n < 4 && n < len(frame)-1 && frame[n]&0x80 != 0 {
		n++
	}
	return fmt.Sprintf("rl%d", n)
}

// hasBoundaryLen reports whether some string/binary in the model has one of
// the boundary lengths named in the C01 quantifier.
func boundaryLens(m *model.Packet) []string {
	var out []string
	seen := map[int]bool{}
	chk := func(n int) {
		switch n {
		case 127, 128, 16383, 16384, 65534, 65535:
			if !seen[n] {
				seen[n] = true
				out = append(out, fmt.Sprintf("len%d", n))
			}
		}
	}
	for _, s := range []string{m.ProtocolName, m.ClientID, m.Username, m.ReasonString, m.AuthMethod, m.AssignedClientID, m.ResponseInformation, m.ServerReference, m.TopicName, m.ResponseTopic, m.ContentType} {
		chk(len(s))
	}
	for _, b := range [][]byte{m.Password, m.AuthData, m.CorrelationData, m.Payload} {
		chk(len(b))
	}
	for _, kv := range m.UserProps {
		chk(len(kv.K))
		chk(len(kv.V))
	}
	for _, f := range m.Filters {
		chk(len(f.Filter))
	}
	for _, f := range m.UnsubFilters {
		chk(len(f))
	}
	if m.Will != nil {
		w := m.Will
		for _, s := range []string{w.Topic, w.ContentType, w.ResponseTopic} {
			chk(len(s))
		}
		chk(len(w.Payload))
		chk(len(w.CorrelationData))
		for _, kv := range w.UserProps {
			chk(len(kv.K))
			chk(len(kv.V))
		}
	}
	return out
}

// optionalCount counts optional fields that are present (non-zero).
func optionalCount(m *model.Packet) int {
	n := 0
	b := func(v bool) {
		if v {
			n++
		}
	}
	b(m.KeepAlive != 0)
	b(m.ClientID != "")
	b(m.Username != "")
	b(len(m.Password) > 0)
	b(m.Will != nil)
	b(m.WillDelay != 0)
	b(m.ReasonCode != 0)
	b(m.ReasonString != "")
	b(m.SessionExpiry != 0)
	b(m.ReceiveMax != 0)
	b(m.MaxPacketSize != 0)
	b(m.TopicAliasMax != 0)
	b(m.RequestResponseInfo)
	b(m.RequestProblemInfo)
	b(m.AuthMethod != "")
	b(len(m.AuthData) > 0)
	b(m.MaxQoS != 0)
	b(m.RetainAvailable)
	b(m.AssignedClientID != "")
	b(m.WildcardSubAvail)
	b(m.SubIDsAvail)
	b(m.SharedSubAvail)
	b(m.ServerKeepAlive != 0)
	b(m.ResponseInformation != "")
	b(m.ServerReference != "")
	b(m.PayloadFormat)
	b(m.MessageExpiry != 0)
	b(m.TopicAlias != 0)
	b(m.ResponseTopic != "")
	b(len(m.CorrelationData) > 0)
	b(m.ContentType != "")
	b(len(m.SubIDs) > 0)
	b(len(m.Payload) > 0)
	b(m.Type == model.SUBSCRIBE && m.SubID >= 0)
	b(len(m.UserProps) > 0)
	b(m.SessionPresent)
	b(m.Dup)
	b(m.Retain)
	b(m.QoS != 0)
	return n
}

func maxListLen(m *model.Packet) int {
	n := len(m.UserProps)
	for _, l := range []int{len(m.SubIDs), len(m.Filters), len(m.UnsubFilters), len(m.ReasonCodes)} {
		if l > n {
			n = l
		}
	}
	if m.Will != nil && len(m.Will.UserProps) > n {
		n = len(m.Will.UserProps)
	}
	return n
}

// expectAfterWire adapts a model of what was set through the API to what the
// accessors of a packet that went over the wire can report: a PUBLISH packet
// identifier is not transmitted at QoS 0.
func expectAfterWire(m model.Packet) model.Packet {
	e := m.Clone()
	if e.Type == model.PUBLISH && e.QoS == 0 {
		e.PacketID = 0
	}
	e.Normalize()
	return e
}

// drawPlan draws the order in which Build calls the setters, and for each
// zero-valued scalar whether its setter is called at all.
func drawPlan(t *rapid.T, m *model.Packet) []api.Step {
	mode := rapid.IntRange(0, 3).Draw(t, "plan.mode")
	n := len(api.Setters(m.Type))
	var order []int
	var skip []bool
	switch mode {
	case 0: // canonical order, zero setters skipped
		return api.Plan(m, nil, nil)
	case 1: // canonical order, all setters called
		skip = make([]bool, n)
		return api.Plan(m, nil, skip)
	default:
		order = rapid.SliceOfN(rapid.IntRange(0, 40), 1, 64).Draw(t, "plan.order")
		skip = rapid.SliceOfN(rapid.Bool(), n, n).Draw(t, "plan.skipzero")
		plan := api.Plan(m, order, skip)
		if len(plan) > 0 && rapid.IntRange(0, 3).Draw(t, "plan.copy") == 0 {
			// the packet value is copied at some point and the construction
			// goes on with the copy (template plus per-client fields)
			plan[rapid.IntRange(0, len(plan)-1).Draw(t, "plan.copyat")].Copy = true
		}
		if mode == 3 && len(plan) > 0 {
			// read-only operations on the half-built packet between setter
			// calls (String, WriteTo, Dump, WellFormed)
			k := rapid.IntRange(1, 3).Draw(t, "plan.nprobes")
			for i := 0; i < k; i++ {
				pos := rapid.IntRange(0, len(plan)-1).Draw(t, "plan.probeat")
				plan[pos].Probe = rapid.SampledFrom([]int{1, 2, 3, 4}).Draw(t, "plan.probe")
			}
		}
		return plan
	}
}

// genC01 draws a packet of the C01 domain.
func genC01(t *rapid.T, typ uint8) model.Packet {
	o := gen.Opts{WellFormed: true}
	m := gen.Packet(t, typ, o)
	if typ == model.DISCONNECT && api.DisconnectHasSetters() {
		gen.DisconnectProps(t, &m, o)
	}
	if rapid.IntRange(0, 24).Draw(t, "steerproplen") == 0 {
		steerPropertyLength(&m, rapid.SampledFrom(propLenTargets).Draw(t, "proplentarget"))
	}
	if typ == model.CONNECT && rapid.IntRange(0, 7).Draw(t, "protolevel") == 0 {
		// the protocol level is a byte the setters take as it is: a client
		// that announces 3.1.1 (or anything else) still builds, writes and
		// reads back the packet it set up
		m.ProtocolVersion = rapid.SampledFrom([]uint8{4, 4, 3, 6, 0, 255}).Draw(t, "protolevelv")
		if m.ProtocolVersion == 3 && rapid.Bool().Draw(t, "mqisdp") {
			m.ProtocolName = "MQIsdp"
		}
	}
	if typ == model.PUBLISH {
		switch k := rapid.IntRange(0, 399).Draw(t, "rlclass"); {
		case k < 32:
			padToRemainingLength(&m, rapid.SampledFrom(rlTargets).Draw(t, "rltarget"))
		case k < 34:
			padToRemainingLength(&m, rapid.SampledFrom(rlTargetsBig).Draw(t, "rltarget"))
		case k < 58:
			padToRemainingLength(&m, rapid.SampledFrom(rlTargetsPow2).Draw(t, "rltarget"))
		}
	}
	return m
}

func typeName(t uint8) string { return model.TypeNames[t&15] }

func joinClasses(parts ...string) string { return strings.Join(parts, "/") }

// packModel / unpackModel carry a model through JSON without loss (Go's JSON
// encoder would replace bytes that are not valid UTF-8).
func packModel(m model.Packet) string {
	var buf bytes.Buffer
	if err := gob.NewEncoder(&buf).Encode(m); err != nil {
		panic(err)
	}
	return base64.StdEncoding.EncodeToString(buf.Bytes())
}

func unpackModel(s string) (model.Packet, error) {
	var m model.Packet
	b, err := base64.StdEncoding.DecodeString(s)
	if err != nil {
		return m, err
	}
	err = gob.NewDecoder(bytes.NewReader(b)).Decode(&m)
	return m, err
}

// padToRemainingLength sets the PUBLISH payload so that the remaining length
// of the canonical encoding is exactly target (if reachable).
func padToRemainingLength(m *model.Packet, target int) bool {
	m.Payload = nil
	f := ref.Canonical(m)
	_, hdr, err := ref.FrameLen(f)
	if err != nil {
		return false
	}
	rl0 := len(f) - hdr
	if target < rl0 {
		return false
	}
	n := target - rl0
	if n == 0 {
		return true
	}
	m.Payload = bytes.Repeat([]byte{0xa5}, n)
	return true
}

var rlTargets = []int{126, 127, 128, 129, 16382, 16383, 16384, 16385}
var rlTargetsBig = []int{2097151, 2097152, 2097153}

// firstRepoFrame returns "file.go:line" of the first stack frame inside the
// library, used as root-cause signature of a panic.
func firstRepoFrame(stack string) string {
	lines := strings.Split(stack, "\n")
	for _, l := range lines {
		l = strings.TrimSpace(l)
		if strings.HasPrefix(l, "/repo/") {
			if i := strings.Index(l, " "); i > 0 {
				l = l[:i]
			}
			return strings.TrimPrefix(l, "/repo/")
		}
	}
	return "unknown"
}

// fuzzSeeds: valid frames of every type plus the hostile constants that
// exposed defects, as seed corpus for the native fuzz targets.
func fuzzSeeds() [][]byte {
	var out [][]byte
	for typ := uint8(1); typ <= 15; typ++ {
		m := model.New(typ)
		switch typ {
		case model.CONNECT:
			m.ClientID, m.KeepAlive, m.HasUsername, m.Username = "cid", 10, true, "u"
			m.Will = &model.Will{Topic: "w", Payload: []byte("x"), QoS: 1, ContentType: "t"}
			m.UserProps = []model.KV{{K: "k", V: "v"}}
			m.ReceiveMax = 9
		case model.CONNACK:
			m.SessionPresent, m.ReasonString, m.RetainAvailable, m.AssignedClientID = true, "r", true, "id"
		case model.PUBLISH:
			m.QoS, m.PacketID, m.TopicName, m.Payload, m.SubIDs = 1, 7, "a/b", []byte("hello"), []uint32{1, 200}
			m.CorrelationData = []byte("c")
		case model.PUBACK, model.PUBREC, model.PUBREL, model.PUBCOMP:
			m.PacketID, m.ReasonCode, m.ReasonString = 3, 0x10, "r"
		case model.SUBSCRIBE:
			m.PacketID, m.SubID = 4, 300
			m.Filters = []model.Filter{{Filter: "a/#", Opts: 1}, {Filter: "b", Opts: 2}}
		case model.SUBACK, model.UNSUBACK:
			m.PacketID, m.ReasonCodes = 5, []uint8{0, 1, 0x80}
		case model.UNSUBSCRIBE:
			m.PacketID, m.UnsubFilters = 6, []string{"a/#", "b"}
		case model.DISCONNECT:
			m.ReasonCode, m.ReasonString = 0x8b, "x"
		case model.AUTH:
			m.ReasonCode, m.AuthMethod, m.AuthData = 0x18, "m", []byte{1}
		}
		m.Normalize()
		out = append(out, ref.Canonical(&m))
		// the same packet type with every property that may legally be
		// transmitted with the value zero written out explicitly
		z := model.New(typ)
		z.PacketID = 1
		switch typ {
		case model.CONNECT:
			z.ClientID = "z"
			z.Will = &model.Will{Topic: "w"}
		case model.PUBLISH:
			z.PacketID, z.TopicName = 0, "t"
		case model.SUBSCRIBE:
			z.Filters = []model.Filter{{Filter: "a", Opts: 0}}
		case model.UNSUBSCRIBE:
			z.UnsubFilters = []string{"a"}
		case model.SUBACK, model.UNSUBACK:
			z.ReasonCodes = []uint8{0}
		}
		z.Normalize()
		st := ref.Style{ExplicitZero: map[byte]bool{}, Form: 2}
		for _, id := range explicitZeroCandidates {
			st.ExplicitZero[byte(id)] = true
		}
		if f, _ := ref.Encode(&z, st); len(f) > 0 {
			out = append(out, f)
		}
	}
	for _, h := range []string{"400100", "8206000100000561", "a206000100000561", "2003000080", "30ffffffff7f", "00", "e0068b041f000178", "9003000100", "3005000161ff"} {
		b, _ := hex.DecodeString(h)
		out = append(out, b)
	}
	return out
}

func nowNanos() int64 { return time.Now().UnixNano() }

func afterSeconds(n int) <-chan time.Time { return time.After(time.Duration(n) * time.Second) }

// threadCPUNanos returns the CPU time consumed so far by the calling OS
// thread (the goroutine must be locked to it), with nanosecond resolution
// (clock_gettime CLOCK_THREAD_CPUTIME_ID; getrusage only has tick resolution).
func threadCPUNanos() int64 {
	var ts syscall.Timespec
	const clockThreadCPUTimeID = 3
	if _, _, errno := syscall.Syscall(syscall.SYS_CLOCK_GETTIME, clockThreadCPUTimeID, uintptr(unsafe.Pointer(&ts)), 0); errno != 0 {
		return time.Now().UnixNano()
	}
	return ts.Nano()
}

// ---- build cases with a prelude and decoy calls ---------------------------

// preOp is one unrelated library call made before the case proper: state
// that leaks between packets or between calls (package-level scratch, pools,
// lazily filled tables, shared default slices) then shows in the case.
type preOp struct {
	Frame Hex    `json:"frame"`
	Entry string `json:"entry"`
}

// buildCase is the replayable description of a packet built through the API.
type buildCase struct {
	ModelGob string     `json:"model_gob"`
	Model    string     `json:"model"`
	Plan     []api.Step `json:"plan"`
	DecoyGob string     `json:"decoy_gob,omitempty"`
	Prelude  []preOp    `json:"prelude,omitempty"`
	// Forward > 0 (C01): after the round trip the decoded packet is changed
	// through one public setter or adder (which one: Forward) and written
	// and read again - a packet obtained from ReadPacket and a setter is a
	// packet built through the public API like any other.
	Forward int `json:"forward,omitempty"`
}

func runPrelude(ops []preOp) {
	for _, o := range ops {
		_, _, _ = decodeVia(o.Entry, o.Frame)
	}
}

// build runs the prelude and builds the packet.
func (c buildCase) build() (p mq.ControlPacket, m model.Packet, err error) {
	m, err = unpackModel(c.ModelGob)
	if err != nil {
		return nil, m, err
	}
	var decoy *model.Packet
	if c.DecoyGob != "" {
		d, err := unpackModel(c.DecoyGob)
		if err != nil {
			return nil, m, err
		}
		decoy = &d
	}
	runPrelude(c.Prelude)
	return api.BuildDecoy(&m, decoy, c.Plan), m, nil
}

// drawPrelude draws 0..3 unrelated decodes (mostly none).
func drawPrelude(t *rapid.T) []preOp {
	if rapid.IntRange(0, 9).Draw(t, "prelude") < 7 {
		return nil
	}
	return drawPreludeN(t, rapid.IntRange(1, 3).Draw(t, "prelude.n"))
}

// drawPreludeN draws exactly n unrelated decodes.
func drawPreludeN(t *rapid.T, n int) []preOp {
	var ops []preOp
	for i := 0; i < n; i++ {
		f, _ := genHostileFrame(t)
		switch rapid.IntRange(0, 5).Draw(t, "prelude.valid") {
		case 0, 1:
			_, f, _, _ = genValidFrame(t, true)
		case 2:
			// a CONNECT of another protocol generation, typically decoded
			// into a constructor value (whose fields start as shared defaults)
			m := model.New(model.CONNECT)
			m.ProtocolName = rapid.SampledFrom([]string{"mqtt", "MQIs", "MQTX", "M", "Mq", "MQIsdp"}).Draw(t, "prelude.proto")
			m.ProtocolVersion = rapid.SampledFrom([]uint8{3, 4, 5}).Draw(t, "prelude.protover")
			m.ClientID = "other"
			f = ref.Canonical(&m)
		}
		if len(f) > 4096 {
			f = f[:4096]
		}
		entry := "ReadPacket"
		if len(f) > 0 {
			switch rapid.IntRange(0, 3).Draw(t, "prelude.entry") {
			case 0:
				entry = fmt.Sprintf("UnmarshalNew:%d", f[0]>>4)
			case 1:
				entry = fmt.Sprintf("Unmarshal:%d", f[0]>>4)
			}
		}
		ops = append(ops, preOp{Frame: f, Entry: entry})
	}
	return ops
}

// drawBuildCase draws everything about how a model is built: call order,
// probes, decoy calls (the same setter called first with another value),
// prelude.
func drawBuildCase(t *rapid.T, m *model.Packet, typ uint8) buildCase {
	c := buildCase{ModelGob: packModel(*m), Model: m.String()}
	c.Plan = drawPlan(t, m)
	if rapid.IntRange(0, 3).Draw(t, "decoys") == 0 && len(c.Plan) > 0 {
		d := genC01(t, typ)
		c.DecoyGob = packModel(d)
		c.Plan = api.WithDecoys(m, c.Plan, func(i int) (bool, int) {
			return rapid.IntRange(0, 2).Draw(t, "decoy.use") == 0, rapid.IntRange(0, 4).Draw(t, "decoy.before")
		})
	}
	if rapid.IntRange(0, 5).Draw(t, "repeats") == 0 {
		c.Plan = api.WithRepeats(m, c.Plan, func(i int) int {
			if rapid.IntRange(0, 3).Draw(t, "repeat.use") == 0 {
				return rapid.IntRange(1, 2).Draw(t, "repeat.n")
			}
			return 0
		})
	}
	c.Prelude = drawPrelude(t)
	if rapid.IntRange(0, 2).Draw(t, "forward") == 0 {
		c.Forward = rapid.IntRange(1, 40).Draw(t, "forwardpick")
	}
	return c
}

// steerPropertyLength appends one user property so that the (first) property
// section of the canonical encoding is exactly target bytes long: the places
// where the property-length field changes size (127/128, 16 383/16 384).
func steerPropertyLength(m *model.Packet, target int) bool {
	if m.Type == model.PINGREQ || m.Type == model.PINGRESP {
		return false
	}
	secs := ref.Tree(m, ref.Style{Form: 2}).PropSections()
	if len(secs) == 0 {
		return false
	}
	cur := 0
	for _, k := range secs[0].Kids {
		b, _ := (&ref.Frame{Body: []*ref.Node{k}}).Bytes()
		cur += len(b) - 2 // minus the frame header of the helper frame
	}
	need := target - cur - 5 - 1 // identifier, two length prefixes, one-byte key
	if need < 0 || need > 65535 {
		return false
	}
	m.UserProps = append(m.UserProps, model.KV{K: "k", V: string(bytes.Repeat([]byte{'p'}, need))})
	return true
}

var propLenTargets = []int{126, 127, 128, 129, 16382, 16383, 16384, 16385}
