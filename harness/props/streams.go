package props

import (
	"bufio"
	"bytes"
	"encoding/hex"
	"errors"
	"fmt"
	"io"
	"sort"

	"github.com/gregoryv/mq"
	"pgregory.net/rapid"

	"verif/harness/api"
	"verif/harness/guard"
	"verif/harness/model"
	"verif/harness/ref"
)

// result of one ReadPacket call in comparable form.
type readResult struct {
	OK    bool
	Type  int
	Obs   model.Packet
	Re    []byte // re-encoding (nil for Undefined)
	Err   error
	Panic *guard.Panic
	// PacketWithError: a non-nil packet value (possibly a typed nil pointer
	// inside the interface) was returned together with an error.
	PacketWithError bool
	P               mq.ControlPacket // the packet itself, for a later second look
	ErrText         string           // err.Error() at the time of the return
}

func resultOf(p mq.ControlPacket, err error, pan *guard.Panic) readResult {
	r := readResult{Err: err, Panic: pan}
	if err != nil && pan == nil {
		guard.Call(func() { r.ErrText = err.Error() })
	}
	if pan == nil && err != nil && p != nil {
		r.PacketWithError = true
	}
	if pan != nil || err != nil || p == nil {
		return r
	}
	r.OK = true
	r.P = p
	r.Type = api.TypeOf(p)
	r.Obs = api.Observe(p)
	if r.Type != model.UNDEFINED {
		r.Re, _, _ = api.Encode(p)
	}
	return r
}

// sameResult compares two results: both rejections (only nil-ness of the
// error is compared, never its text), or both packets with equal accessors
// and equal re-encoding.
func sameResult(a, b readResult) string {
	if a.Panic != nil || b.Panic != nil {
		return fmt.Sprintf("panic: %v / %v", a.Panic, b.Panic)
	}
	if a.PacketWithError || b.PacketWithError {
		return fmt.Sprintf("a packet value that is not nil was returned together with an error (%v / %v)", a.Err, b.Err)
	}
	if a.OK != b.OK {
		return fmt.Sprintf("one read returned a packet, the other an error (%v / %v)", a.Err, b.Err)
	}
	if !a.OK {
		return ""
	}
	if a.Type != b.Type {
		return fmt.Sprintf("packet types differ: %d vs %d", a.Type, b.Type)
	}
	if d := model.Diff(a.Obs, b.Obs); d != "" {
		return "accessors differ: " + d
	}
	if string(a.Re) != string(b.Re) {
		return fmt.Sprintf("re-encodings differ: %s vs %s", hx(a.Re), hx(b.Re))
	}
	return ""
}

// readScripted reads one packet from a scripted reader under the guard.
func readScripted(sr *guard.ScriptReader, size int, c func() interface{}) readResult {
	var p mq.ControlPacket
	var err error
	pan := guard.Watched(size, func() []byte { return mustJSON(c()) }, func() {
		p, err = mq.ReadPacket(sr)
	})
	return resultOf(p, err, pan)
}

// genCompleteFrame draws a complete frame (declared length == bytes
// present): valid frames from the reference encoder or the library, or
// content-malformed ones with a consistent remaining length.
func genCompleteFrame(t *rapid.T, small bool) (frame []byte, kind string) {
	if !small && rapid.IntRange(0, 39).Draw(t, "largeframe") == 0 {
		// a large frame: remaining length in its 3- or 4-byte form
		m := model.New(model.PUBLISH)
		m.TopicName = "big"
		target := rapid.SampledFrom([]int{65535, 65536, 65536, 65537, 70000, 131072, 262144, 1<<20 - 1, 1 << 20, 1<<20 + 7, 2097151, 2097152, 2097153, 3 << 20}).Draw(t, "largerl")
		if rapid.IntRange(0, 11).Draw(t, "verylarge") == 0 {
			// beyond the next buffer thresholds an implementation may have
			target = rapid.SampledFrom([]int{1<<22 + 3, 1<<23 + 1, 1<<24 - 1, 1 << 24, 1<<24 + 9, 1<<25 + 5}).Draw(t, "verylargerl")
		}
		padToRemainingLength(&m, target)
		m.Normalize()
		return ref.Canonical(&m), "valid-large"
	}
	if !small && rapid.IntRange(0, 19).Draw(t, "largemalformed") == 0 {
		// a large PUBLISH (around the sizes where implementations switch to
		// another code path) in which one inner length field - topic length
		// or property length - points beyond the end of the frame; the
		// remaining length stays equal to the bytes that follow
		m := model.New(model.PUBLISH)
		m.TopicName = "t/large"
		if rapid.Bool().Draw(t, "lm.props") {
			m.ContentType = "x"
		}
		padToRemainingLength(&m, rapid.SampledFrom([]int{4096, 8192, 8193, 16383, 16384, 17000, 32768, 65535, 65536, 70000, 131072}).Draw(t, "lm.rl"))
		m.Normalize()
		f, spans := ref.Tree(&m, ref.Style{Form: 2}).Bytes()
		var inner []ref.LenField
		for _, lf := range ref.LengthFields(spans) {
			if lf.Kind != ref.KRemLen {
				inner = append(inner, lf)
			}
		}
		if len(inner) > 0 {
			lf := inner[rapid.IntRange(0, len(inner)-1).Draw(t, "lm.field")]
			old := lenFieldValue(f, lf)
			nv := rapid.SampledFrom([]uint32{old + 1, old + 255, 65535, uint32(len(f)), uint32(len(f)) + 1, 2097151, 268435455}).Draw(t, "lm.value")
			g := setLenField(f, lf, nv)
			if first, hdr, _, ok := ref.Split(g); ok {
				return ref.Reframe(first, g[hdr:]), "content-malformed"
			}
		}
	}
	switch k := rapid.IntRange(0, 9).Draw(t, "framekind"); {
	case k < 4:
		_, f, _, _ := genValidFrame(t, small)
		return f, "valid-ref"
	case k < 6:
		typ := uint8(rapid.IntRange(1, 15).Draw(t, "type"))
		m := genC01(t, typ)
		f := ownEncoding(&m)
		if f == nil {
			f = ref.Canonical(&m)
		}
		return f, "valid-lib"
	case k < 7:
		first := rapid.SampledFrom([]byte{0xc0, 0xd0, 0xe0, 0xf0, 0x10, 0x20, 0x30, 0x40, 0x82, 0x90, 0xa2, 0xb0, 0x00, 0x62}).Draw(t, "zerolen")
		return []byte{first, 0}, "zero-length"
	default:
		f, _ := genHostileFrame(t)
		first, _, body, ok := ref.Split(f)
		if !ok {
			return []byte{0xc0, 0}, "zero-length"
		}
		if len(body) > 1<<16 {
			body = body[:1<<16]
		}
		return ref.Reframe(first, body), "content-malformed"
	}
}

// shortFrames returns a deterministic supply of complete frames of at most
// maxLen bytes: small valid frames of all types, zero-length frames and
// content-malformed ones.
func shortFrames(maxLen int) [][]byte {
	var out [][]byte
	add := func(f []byte) {
		if len(f) <= maxLen && len(f) >= 2 {
			out = append(out, f)
		}
	}
	for typ := uint8(1); typ <= 15; typ++ {
		m := model.New(typ)
		m.PacketID = 0x0102
		switch typ {
		case model.PUBLISH:
			m.TopicName, m.Payload = "a", []byte("b")
		case model.SUBSCRIBE:
			m.Filters = []model.Filter{{Filter: "a", Opts: 1}}
		case model.UNSUBSCRIBE:
			m.UnsubFilters = []string{"a"}
		case model.SUBACK, model.UNSUBACK:
			m.ReasonCodes = []uint8{0, 0x80}
		}
		m.Normalize()
		add(ref.Canonical(&m))
		for form := 1; form <= 2; form++ {
			f, _ := ref.Encode(&m, ref.Style{Form: form})
			add(f)
		}
		m2 := m.Clone()
		m2.ReasonCode = 0x80
		if typ == model.PUBLISH {
			m2.QoS, m2.Dup, m2.Retain = 1, true, true
		}
		m2.Normalize()
		add(ref.Canonical(&m2))
		add([]byte{typ << 4, 0})
	}
	for _, h := range []string{"2003000080", "400100", "30050001610062", "e0021100", "9003000100", "0003010203", "f00400012600", "8206000100000561", "3003000080", "c00100"} {
		b, _ := hex.DecodeString(h)
		add(b)
	}
	return out
}

// composition i (0 <= i < 2^(n-1)) of n as chunk sizes.
func composition(n int, i uint) []int {
	var out []int
	cur := 1
	for b := 0; b < n-1; b++ {
		if i&(1<<uint(b)) != 0 {
			out = append(out, cur)
			cur = 1
		} else {
			cur++
		}
	}
	return append(out, cur)
}

// schedule builds reader steps from chunk sizes. zeros inserts a (0, nil)
// read before every chunk; eofWithLast delivers the last chunk with io.EOF.
func schedule(chunks []int, zeros, eofWithLast bool) []guard.Step {
	var st []guard.Step
	for i, c := range chunks {
		if zeros {
			st = append(st, guard.Step{N: 0})
		}
		s := guard.Step{N: c}
		if eofWithLast && i == len(chunks)-1 {
			s.Err = "EOF"
		}
		st = append(st, s)
	}
	return st
}

func drawChunks(t *rapid.T, n int) []int {
	if n == 0 {
		return nil
	}
	if n > 4096 {
		// long frames: segment sizes as on a network, or a few random cuts
		switch rapid.IntRange(0, 3).Draw(t, "longchunkmode") {
		case 0:
			return []int{n / 2, n - n/2}
		case 1:
			h := rapid.IntRange(1, 5).Draw(t, "hdrsplit")
			return []int{h, n - h}
		case 2:
			seg := rapid.SampledFrom([]int{512, 1460, 4096, 16384}).Draw(t, "segment")
			var out []int
			for left := n; left > 0; left -= seg {
				if left < seg {
					out = append(out, left)
					break
				}
				out = append(out, seg)
			}
			return out
		default:
			cuts := rapid.SliceOfNDistinct(rapid.IntRange(1, n-1), 1, 6, func(v int) int { return v }).Draw(t, "cuts")
			sort.Ints(cuts)
			var out []int
			prev := 0
			for _, c := range cuts {
				out = append(out, c-prev)
				prev = c
			}
			return append(out, n-prev)
		}
	}
	switch rapid.IntRange(0, 4).Draw(t, "chunkmode") {
	case 0: // byte-wise
		out := make([]int, n)
		for i := range out {
			out[i] = 1
		}
		return out
	case 1: // halves
		if n == 1 {
			return []int{1}
		}
		return []int{n / 2, n - n/2}
	case 2: // header / body
		h := rapid.IntRange(1, min(5, n)).Draw(t, "hdrsplit")
		if h == n {
			return []int{n}
		}
		return []int{h, n - h}
	default: // random chunks
		var out []int
		left := n
		for left > 0 {
			c := rapid.IntRange(1, min(left, 1+rapid.IntRange(0, 40).Draw(t, "chunkmax"))).Draw(t, "chunk")
			out = append(out, c)
			left -= c
		}
		return out
	}
}

func min(a, b int) int {
	if a < b {
		return a
	}
	return b
}

var _ = errors.Is
var _ = io.EOF

// wrapKinds are the concrete reader types a stream is offered through: code
// that type-asserts its reader (io.ByteReader, *bufio.Reader, *bytes.Buffer)
// takes other paths for them.
var wrapKinds = []string{"script", "script", "bytes.Reader", "bytes.Buffer", "bufio16", "bufio4096", "chunklen", "deadline"}

// wrappedStream offers sr (or its data) through a reader of the given kind
// and reports how many bytes of the stream the consumer has taken so far.
func wrappedStream(kind string, sr *guard.ScriptReader) (io.Reader, func() int) {
	switch kind {
	case "bytes.Reader":
		r := bytes.NewReader(sr.Data)
		return r, func() int { return len(sr.Data) - r.Len() }
	case "bytes.Buffer":
		r := bytes.NewBuffer(append([]byte(nil), sr.Data...))
		return r, func() int { return len(sr.Data) - r.Len() }
	case "bufio16":
		r := bufio.NewReaderSize(sr, 16)
		return r, func() int { return sr.Consumed() - r.Buffered() }
	case "bufio4096":
		r := bufio.NewReaderSize(sr, 4096)
		return r, func() int { return sr.Consumed() - r.Buffered() }
	case "chunklen":
		return guard.ChunkLenReader{ScriptReader: sr}, sr.Consumed
	case "deadline":
		// a reader with SetReadDeadline whose peer is slow (virtually: an
		// hour between any two reads): only a consumer that sets a deadline
		// of its own ever sees a timeout from it
		return &guard.DeadlineReader{ScriptReader: sr}, sr.Consumed
	}
	return sr, sr.Consumed
}

// readFrom reads one packet from any reader under the guard.
func readFrom(r io.Reader, size int, c func() interface{}) readResult {
	var p mq.ControlPacket
	var err error
	pan := guard.Watched(size, func() []byte { return mustJSON(c()) }, func() {
		p, err = mq.ReadPacket(r)
	})
	return resultOf(p, err, pan)
}
