package props

import (
	"bytes"
	"encoding/json"
	"fmt"
	"testing"

	"github.com/gregoryv/mq"
	"pgregory.net/rapid"

	"verif/harness/api"
	"verif/harness/gen"
	"verif/harness/guard"
	"verif/harness/model"
	"verif/harness/ref"
	"verif/harness/vf"
)

// C18 — diagnostics never disclose credentials (non-interference over pairs).

type caseC18 struct {
	ModelGob string `json:"model_gob"` // CONNECT model without credentials
	Model    string `json:"model"`
	UserA    Hex    `json:"user_a"`
	UserB    Hex    `json:"user_b"`
	PassA    Hex    `json:"pass_a"`
	PassB    Hex    `json:"pass_b"`
	Wire     bool   `json:"wire"`
	// Lone: "" both credentials as given | "user": the password is empty in both packets |
	// "pass": the user name is empty in both. FlagOnly (wire only): the empty credential's
	// flag is set and its zero-length field is on the wire.
	Lone     string `json:"lone,omitempty"`
	FlagOnly bool   `json:"flag_only,omitempty"`
	// Staged (API only): the packet is first built with short placeholder
	// credentials, then the other text fields are set again and finally the
	// real credentials replace the placeholders (a client that fills in the
	// token just before connecting).
	Staged bool `json:"staged,omitempty"`
	// StagedWire (wire only): the CONNECT is decoded from a frame that carries
	// placeholder credentials (the user name equal to the client identifier,
	// as devices do), then the real credentials are put in with the setters.
	StagedWire bool `json:"staged_wire,omitempty"`
	// Stale (wire only): one Connect value is decoded twice - first from a
	// frame carrying the credentials of the A side, then from the anonymous
	// frame - and then given the credentials with the setters.
	Stale bool `json:"stale,omitempty"`
}

func renderBoth(m model.Packet, user, pass []byte, wire bool, flagOnly ...bool) (dump, str string, err error) {
	staged := len(flagOnly) > 1 && flagOnly[1]
	stagedWire := len(flagOnly) > 2 && flagOnly[2]
	m.Username, m.HasUsername = string(user), len(user) > 0
	m.Password, m.HasPassword = append([]byte(nil), pass...), len(pass) > 0
	if wire && len(flagOnly) > 0 && flagOnly[0] {
		m.HasUsername, m.HasPassword = true, true
	}
	m.Normalize()
	var p mq.ControlPacket
	if wire && stagedWire {
		ph := m.Clone()
		if len(user) > 0 {
			ph.Username, ph.HasUsername = ph.ClientID, ph.ClientID != ""
			if ph.Username == "" {
				ph.Username, ph.HasUsername = "u", true
			}
		}
		if len(pass) > 0 {
			ph.Password, ph.HasPassword = []byte("p"), true
		}
		ph.Normalize()
		q, e, pan := read(ref.Canonical(&ph))
		if pan != nil || e != nil {
			return "", "", fmt.Errorf("decode failed: %v %v", e, pan)
		}
		cq, ok := q.(*mq.Connect)
		if !ok {
			return "", "", fmt.Errorf("decoded %T", q)
		}
		if pan := guard.Call(func() {
			if len(user) > 0 {
				cq.SetUsername(string(user))
			}
			if len(pass) > 0 {
				cq.SetPassword(append([]byte(nil), pass...))
			}
		}); pan != nil {
			return "", "", fmt.Errorf("setters on the decoded packet panicked: %v", pan.Value)
		}
		p = cq
	} else if wire {
		q, e, pan := read(ref.Canonical(&m))
		if pan != nil || e != nil {
			return "", "", fmt.Errorf("decode failed: %v %v", e, pan)
		}
		p = q
	} else if staged {
		ph := m.Clone()
		if len(user) > 0 {
			ph.Username = "u"
		}
		if len(pass) > 0 {
			ph.Password = []byte("p")
		}
		if pan := guard.Call(func() {
			p = api.BuildDefault(&ph)
			byName := map[string]api.Setter{}
			for _, st := range api.Setters(model.CONNECT) {
				byName[st.Name] = st
			}
			for _, name := range []string{"SetClientID", "SetAuthMethod", "SetUsername", "SetPassword"} {
				if st, ok := byName[name]; ok && (st.IsZero == nil || !st.IsZero(&m)) {
					st.Apply(p, &m, 0)
				}
			}
		}); pan != nil {
			return "", "", fmt.Errorf("building panicked: %v", pan.Value)
		}
	} else {
		p = api.BuildDefault(&m)
	}
	var buf bytes.Buffer
	if pan := guard.Call(func() { mq.Dump(&buf, p); str = p.String() }); pan != nil {
		return "", "", fmt.Errorf("Dump/String panicked: %v", pan.Value)
	}
	return buf.String(), str, nil
}

func checkC18(c caseC18) (sig, msg string) {
	guard.SetCurrent(func() []byte {
		return mustJSON(vf.Failure{Property: "C18", Kind: "hang", Case: mustJSON(c), Signature: "hang", Message: "a library call made for this case did not return"})
	})
	defer guard.SetCurrent(nil)
	m, err := unpackModel(c.ModelGob)
	if err != nil {
		return "harness", "harness: " + err.Error()
	}
	if len(c.UserA) != len(c.UserB) || len(c.PassA) != len(c.PassB) {
		return "harness", "harness: credential lengths differ"
	}
	switch c.Lone {
	case "user":
		c.PassA, c.PassB = nil, nil
	case "pass":
		c.UserA, c.UserB = nil, nil
	}
	if c.Stale && c.Wire {
		return checkC18Stale(m, c)
	}
	d1, s1, err := renderBoth(m.Clone(), c.UserA, c.PassA, c.Wire, c.FlagOnly, c.Staged, c.StagedWire)
	if err != nil {
		return "render", err.Error()
	}
	d2, s2, err := renderBoth(m.Clone(), c.UserB, c.PassB, c.Wire, c.FlagOnly, c.Staged, c.StagedWire)
	if err != nil {
		return "render", err.Error()
	}
	if d1 != d2 {
		return "dump-depends-on-credentials", fmt.Sprintf("Dump output depends on the credential bytes:\n--- with %q / %q\n%s\n--- with %q / %q\n%s", c.UserA, c.PassA, d1, c.UserB, c.PassB, d2)
	}
	if s1 != s2 {
		return "string-depends-on-credentials", fmt.Sprintf("String output depends on the credential bytes:\n%q\n%q", s1, s2)
	}
	return "", ""
}

// checkC18Stale: one Connect value decodes the frame with the A credentials,
// then the anonymous frame, and is then given credentials with the setters -
// the A values in one run, the B values in the other.
func checkC18Stale(m model.Packet, c caseC18) (sig, msg string) {
	render := func(user, pass []byte) (string, string, error) {
		withA := m.Clone()
		withA.Username, withA.HasUsername = string(c.UserA), len(c.UserA) > 0
		withA.Password, withA.HasPassword = append([]byte(nil), c.PassA...), len(c.PassA) > 0
		withA.Normalize()
		anon := m.Clone()
		anon.Username, anon.HasUsername, anon.Password, anon.HasPassword = "", false, nil, false
		anon.Normalize()
		v := mq.NewConnect()
		var dump bytes.Buffer
		var str string
		var derr error
		if pan := guard.Call(func() {
			_, _, b1, _ := ref.Split(ref.Canonical(&withA))
			_, _, b2, _ := ref.Split(ref.Canonical(&anon))
			if derr = v.UnmarshalBinary(append([]byte(nil), b1...)); derr != nil {
				return
			}
			if derr = v.UnmarshalBinary(append([]byte(nil), b2...)); derr != nil {
				return
			}
			if len(user) > 0 {
				v.SetUsername(string(user))
			}
			if len(pass) > 0 {
				v.SetPassword(append([]byte(nil), pass...))
			}
			mq.Dump(&dump, v)
			str = v.String()
		}); pan != nil {
			return "", "", fmt.Errorf("panic: %v", pan.Value)
		}
		if derr != nil {
			return "", "", derr
		}
		return dump.String(), str, nil
	}
	d1, s1, err := render(c.UserA, c.PassA)
	if err != nil {
		return "", "" // decoding is judged elsewhere
	}
	d2, s2, err := render(c.UserB, c.PassB)
	if err != nil {
		return "", ""
	}
	if d1 != d2 {
		return "dump-depends-on-credentials", fmt.Sprintf("Dump output depends on the credential bytes (a Connect value reused for an anonymous frame, then given credentials):\n--- with %q / %q\n%s\n--- with %q / %q\n%s", c.UserA, c.PassA, d1, c.UserB, c.PassB, d2)
	}
	if s1 != s2 {
		return "string-depends-on-credentials", fmt.Sprintf("String output depends on the credential bytes (a Connect value reused for an anonymous frame, then given credentials):\n%q\n%q", s1, s2)
	}
	return "", ""
}

func TestC18(t *testing.T) {
	curProp = "C18"
	r := vf.NewRec("C18")
	defer r.Finish(t)
	guard.StartWatchdog(*vf.Out, vf.Label("C18"))

	for _, rf := range r.LoadReplays(t) {
		var c caseC18
		if err := json.Unmarshal(rf.Case, &c); err != nil {
			t.Fatalf("replay %s: %v", rf.Source, err)
		}
		_, msg := checkC18(c)
		r.Case(vf.FPs("replay", c.ModelGob, string(c.UserA), string(c.UserB)), true, "replay", func() interface{} { return c.Model })
		if msg != "" {
			r.FailReplay(rf, "%s", msg)
		}
	}
	if vf.ReplayOnly() {
		return
	}

	r.Rapid(t, "pairs", vf.N(24000, 4000000), func(t *rapid.T) {
		o := gen.Opts{WellFormed: true, SpecValid: true, NoHuge: true}
		m := gen.Packet(t, model.CONNECT, o)
		m.Username, m.HasUsername, m.Password, m.HasPassword = "", false, nil, false
		if rapid.IntRange(0, 3).Draw(t, "authdict") == 0 {
			// registered SASL mechanism names and other method names in use:
			// code may know some of them
			m.AuthMethod = rapid.SampledFrom([]string{"PLAIN", "LOGIN", "SCRAM-SHA-1", "SCRAM-SHA-256", "SCRAM-SHA-512", "OAUTHBEARER", "XOAUTH2", "EXTERNAL", "ANONYMOUS", "CRAM-MD5", "DIGEST-MD5", "GSSAPI", "GS2-KRB5", "NTLM", "plain", "digest", "jwt", "K8S-SAT", "Basic", "Bearer"}).Draw(t, "authmethod")
			if rapid.Bool().Draw(t, "noauthdata") {
				m.AuthData = nil
			}
		}
		// candidate secrets: fresh values, or copies of other field contents
		others := []string{m.ClientID, m.AuthMethod, string(m.AuthData)}
		for _, kv := range m.UserProps {
			others = append(others, kv.K, kv.V)
		}
		if m.Will != nil {
			others = append(others, m.Will.Topic, string(m.Will.Payload), m.Will.ContentType)
		}
		var pool []string
		for _, s := range others {
			if s != "" {
				pool = append(pool, s)
			}
		}
		pick := func(label string, n int) ([]byte, bool) {
			if len(pool) > 0 && rapid.IntRange(0, 2).Draw(t, label+".copy") == 0 {
				s := rapid.SampledFrom(pool).Draw(t, label+".from")
				if n == 0 || len(s) == n {
					return []byte(s), true
				}
			}
			if rapid.IntRange(0, 3).Draw(t, label+".dict") == 0 {
				// secrets with a shape some code might treat specially: byte
				// order mark, surrounding whitespace, quotes, substitution
				// patterns, an e-mail like realm, invalid UTF-8, NUL
				pre := rapid.SampledFrom([]string{"\ufeff", " ", "\t", "\x00", "%", "$", "{", "<", "\"", "'", "\\", "Bearer ", "Basic ", "", "", ""}).Draw(t, label+".pre")
				mid := rapid.SampledFrom([]string{"joe", "%u", "%c", "null", "0", "a@b.c", "j\xf6hn", "x\x00y", "*********", "pass word", "é"}).Draw(t, label+".mid")
				suf := rapid.SampledFrom([]string{" ", "\n", "\r\n", "\x00", "=", "%", "@realm", "", "", ""}).Draw(t, label+".suf")
				s := pre + mid + suf
				if n == 0 || len(s) == n {
					return []byte(s), false
				}
				if len(s) < n {
					return append([]byte(s), bytes.Repeat([]byte{'x'}, n-len(s))...), false
				}
				if len(pre) <= n {
					return append([]byte(pre), bytes.Repeat([]byte{'y'}, n-len(pre))...), false
				}
			}
			if n == 0 {
				n = rapid.IntRange(1, 24).Draw(t, label+".len")
			}
			return []byte(gen.StrN(t, label, n, gen.Opts{SpecValid: true})), false
		}
		if rapid.IntRange(0, 39).Draw(t, "oversize") == 0 {
			// longer than an MQTT string can be (the setters take any length):
			// what an encoder does with the excess must not depend on the bytes
			n := rapid.SampledFrom([]int{65535, 65536, 65537, 70000}).Draw(t, "oversizelen")
			a := bytes.Repeat([]byte{'a'}, n)
			b := append(bytes.Repeat([]byte{'a'}, n-3), []byte("\u00e9b")...)
			if rapid.Bool().Draw(t, "oversizeat") && n > 65536 {
				b = append(append(bytes.Repeat([]byte{'a'}, 65534), []byte("\u00e9")...), bytes.Repeat([]byte{'b'}, n-65536)...)
			}
			wire := false
			c := caseC18{ModelGob: packModel(m), Model: m.String(), UserA: a, UserB: b, PassA: []byte("pw"), PassB: []byte("pw"), Wire: wire}
			sig, msg := checkC18(c)
			r.Case(vf.FPs(c.ModelGob, "oversize", fmt.Sprint(n, len(b))), true, "oversize-user-name/api", func() interface{} {
				return map[string]interface{}{"model": m.String(), "user_name_bytes": n}
			})
			if msg != "" {
				r.Fail("disclosure", c, sig, "%s", msg)
				t.Fatalf("%s", msg)
			}
			return
		}
		ua, c1 := pick("userA", 0)
		ub, c2 := pick("userB", len(ua))
		pa, c3 := pick("passA", 0)
		pb, c4 := pick("passB", len(pa))
		copied := c1 || c2 || c3 || c4
		wire := rapid.Bool().Draw(t, "wire")
		c := caseC18{ModelGob: packModel(m), Model: m.String(), UserA: ua, UserB: ub, PassA: pa, PassB: pb, Wire: wire}
		c.Lone = rapid.SampledFrom([]string{"", "", "", "user", "pass"}).Draw(t, "lone")
		c.FlagOnly = wire && c.Lone != "" && rapid.Bool().Draw(t, "flagonly")
		c.Staged = !wire && rapid.IntRange(0, 2).Draw(t, "staged") == 0
		if wire && !c.FlagOnly {
			switch rapid.IntRange(0, 5).Draw(t, "wirevariant") {
			case 0, 1:
				c.StagedWire = true
			case 2:
				c.Stale = true
			}
		}
		sig, msg := checkC18(c)
		differ := !bytes.Equal(ua, ub) || !bytes.Equal(pa, pb)
		class := "fresh-secrets"
		if copied {
			class = "secret-equals-other-field"
		}
		if wire {
			class += "/wire"
		} else {
			class += "/api"
		}
		if c.Lone != "" {
			class += "/only-" + c.Lone
		}
		if c.Staged || c.StagedWire {
			class += "/placeholders-first"
		}
		if c.Stale {
			class += "/value-reused"
		}
		r.Case(vf.FPs(c.ModelGob, string(ua), string(ub), string(pa), string(pb), fmt.Sprint(wire, c.Lone, c.FlagOnly, c.Staged, c.StagedWire, c.Stale)), differ, class, func() interface{} {
			return map[string]interface{}{"model": m.String(), "user": []string{string(ua), string(ub)}, "password": []string{string(pa), string(pb)}, "wire": wire}
		})
		if msg != "" {
			r.Fail("disclosure", c, sig, "%s", msg)
			t.Fatalf("%s", msg)
		}
	})
}
