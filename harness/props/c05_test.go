package props

import (
	"bytes"
	"strings"

	"fmt"
	"github.com/gregoryv/mq"
	"runtime"
	"testing"

	"pgregory.net/rapid"

	"verif/harness/api"
	"verif/harness/guard"
	"verif/harness/model"
	"verif/harness/ref"
	"verif/harness/vf"
)

// C05 — decoding terminates with work and memory bounded by the frame size.
//
// Oracle: (1) the call returns (watchdog, re-confirmed alone in a child);
// (2) bytes allocated during the call <= allocBase + allocPerByte * size,
// where size = max(len(frame), declared remaining length);
// (3) no list of a returned packet has more elements than the frame has bytes.

const (
	allocBase    = 1 << 20
	allocPerByte = 512
)

func declaredSize(frame []byte) int {
	size := len(frame)
	if total, _, err := ref.FrameLen(frame); err == nil && total > size {
		size = total
	}
	return size
}

var memBefore, memAfter runtime.MemStats

// lastC05Packet is the packet the most recent checkC05 call returned (nil if
// the input was rejected); the test keeps such packets and re-inspects them.
var lastC05Packet mq.ControlPacket

// c05Base is the intact frame the last generated frame was derived from by
// inflating one inner length field (nil otherwise).
var c05Base []byte

// inflationCost is the metamorphic relation for inflated inner length
// fields: a frame that only differs from an intact one in a length field that
// now points far beyond the data must not make the decoder allocate more than
// the intact frame plus a small allowance - the declared length of a string
// is not a reason to allocate before the bytes are there. Comparing with the
// intact frame (instead of a constant) leaves room for any fixed per-call
// overhead an implementation may have.
func inflationCost(base, damaged []byte) (sig, msg string) {
	allocOf := func(f []byte) uint64 {
		best := ^uint64(0)
		var a, b runtime.MemStats
		for i := 0; i < 3; i++ {
			runtime.ReadMemStats(&a)
			_, _ = mqRead(f)
			runtime.ReadMemStats(&b)
			if d := b.TotalAlloc - a.TotalAlloc; d < best {
				best = d
			}
		}
		return best
	}
	intact, hurt := allocOf(base), allocOf(damaged)
	if allow := intact + 16<<10 + 64*uint64(len(damaged)); hurt > allow {
		return "alloc-follows-inflated-length", fmt.Sprintf("ReadPacket allocates %d bytes for the intact frame (%d bytes long) and %d bytes for the same frame with one inner length field raised beyond the data (limit %d): memory follows a declared length, not the bytes that arrived\nintact  %s\ndamaged %s", intact, len(base), hurt, allow, hx(base), hx(damaged))
	}
	return "", ""
}

func checkC05(entry string, frame []byte) (accepted bool, sig, msg string) {
	lastC05Packet = nil
	size := declaredSize(frame)
	runtime.ReadMemStats(&memBefore)
	p, err, pan := decodeVia(entry, frame)
	runtime.ReadMemStats(&memAfter)
	if err == errWaitsBeyondFrame {
		return false, "waits-beyond-frame", fmt.Sprintf("%s: the complete frame %s was delivered on a stream that stays open, but the call does not return", entry, hx(frame))
	}
	if pan != nil {
		// a panic is C04's business; it is reported here too because the
		// call did not return normally.
		return false, "panic:" + panicSite(pan), fmt.Sprintf("%s panicked on %s: %v", entry, hx(frame), pan.Value)
	}
	alloc := memAfter.TotalAlloc - memBefore.TotalAlloc
	if limit := uint64(allocBase + allocPerByte*size); alloc > limit {
		return false, "alloc", fmt.Sprintf("%s on a frame of declared size %d allocated %d bytes (limit %d): %s", entry, size, alloc, limit, hx(frame))
	}
	if err == nil && p != nil {
		lastC05Packet = p
		m := api.Observe(p)
		if n := maxListLen(&m); n > len(frame) {
			return true, "list-longer-than-frame", fmt.Sprintf("%s returned a packet with a list of %d elements from a frame of %d bytes: %s", entry, n, len(frame), hx(frame))
		}
	}
	return err == nil, "", ""
}

// genRepeatedSection draws frames whose repeated sections are long,
// truncated, empty or inconsistent. reached reports that a repeated section
// is present; hostile that it was damaged.
func genRepeatedSection(t *rapid.T) (frame []byte, class string, nontrivial bool) {
	typ := rapid.SampledFrom([]uint8{model.SUBSCRIBE, model.SUBSCRIBE, model.UNSUBSCRIBE, model.UNSUBSCRIBE, model.SUBACK, model.UNSUBACK, model.PUBLISH, model.CONNECT, model.CONNACK, model.PUBACK, model.AUTH, model.DISCONNECT}).Draw(t, "type")
	m := model.New(typ)
	m.PacketID = 1
	var n int
	switch k := rapid.IntRange(0, 9).Draw(t, "listsize"); {
	case k < 3:
		n = rapid.IntRange(0, 3).Draw(t, "n")
	case k < 8:
		n = rapid.IntRange(4, 300).Draw(t, "n")
	default:
		n = rapid.IntRange(301, 20000).Draw(t, "n")
	}
	elem := rapid.SampledFrom([]string{"", "a", "ab"}).Draw(t, "elem")
	switch typ {
	case model.SUBSCRIBE:
		for i := 0; i < n; i++ {
			m.Filters = append(m.Filters, model.Filter{Filter: elem, Opts: uint8(i % 3)})
		}
	case model.UNSUBSCRIBE:
		for i := 0; i < n; i++ {
			m.UnsubFilters = append(m.UnsubFilters, elem)
		}
	case model.SUBACK, model.UNSUBACK:
		for i := 0; i < n; i++ {
			m.ReasonCodes = append(m.ReasonCodes, uint8(i))
		}
	case model.PUBLISH:
		m.TopicName = "t"
		if rapid.Bool().Draw(t, "subids") {
			for i := 0; i < n; i++ {
				m.SubIDs = append(m.SubIDs, uint32(i%127+1))
			}
		} else {
			for i := 0; i < n; i++ {
				m.UserProps = append(m.UserProps, model.KV{K: elem, V: ""})
			}
		}
	case model.CONNECT:
		if rapid.Bool().Draw(t, "willprops") {
			m.Will = &model.Will{Topic: "w"}
			for i := 0; i < n; i++ {
				m.Will.UserProps = append(m.Will.UserProps, model.KV{K: elem, V: ""})
			}
		} else {
			for i := 0; i < n; i++ {
				m.UserProps = append(m.UserProps, model.KV{K: elem, V: ""})
			}
		}
	default:
		for i := 0; i < n; i++ {
			m.UserProps = append(m.UserProps, model.KV{K: elem, V: ""})
		}
	}
	m.Normalize()
	f, spans := ref.Encode(&m, ref.Style{Form: 2})
	first, hdr, body, _ := ref.Split(f)
	class = typeName(typ)
	if n >= 256 {
		nontrivial = true
		class += "/long"
	}
	switch rapid.IntRange(0, 8).Draw(t, "damage") {
	case 7, 8: // one inner length field inflated far beyond the data that follows
		lfs := ref.LengthFields(spans)
		var inner []ref.LenField
		for _, lf := range lfs {
			if lf.Kind != ref.KRemLen {
				inner = append(inner, lf)
			}
		}
		if len(inner) == 0 {
			return f, class + "/intact", nontrivial
		}
		lf := inner[rapid.IntRange(0, len(inner)-1).Draw(t, "inflate")]
		var nv uint32
		if lf.Kind == ref.KStr || lf.Kind == ref.KBin {
			nv = rapid.SampledFrom([]uint32{65532, 65533, 65534, 65535, 32768}).Draw(t, "inflateto")
		} else {
			nv = rapid.SampledFrom([]uint32{65535, 2097151, 2097152, 268435455, 1 << 24}).Draw(t, "inflateto")
		}
		g := setLenField(f, lf, nv)
		if fb, _, b2, ok := ref.Split(g); ok {
			g = ref.Reframe(fb, b2)
		}
		c05Base = f
		return g, class + "/inflated-inner-length", true
	case 0: // intact
		return f, class + "/intact", nontrivial
	case 1, 2: // truncate anywhere in the body, remaining length patched
		if len(body) == 0 {
			return f, class + "/intact", nontrivial
		}
		cut := rapid.IntRange(0, len(body)-1).Draw(t, "cut")
		return ref.Reframe(first, body[:cut]), class + "/truncated", true
	case 3: // truncate near the end (inside the last elements)
		if len(body) == 0 {
			return f, class + "/intact", nontrivial
		}
		back := rapid.IntRange(1, 6).Draw(t, "back")
		if back > len(body) {
			back = len(body)
		}
		return ref.Reframe(first, body[:len(body)-back]), class + "/truncated-tail", true
	case 4: // raise or lower one length field inside the body
		lfs := ref.LengthFields(spans)
		lf := lfs[rapid.IntRange(0, len(lfs)-1).Draw(t, "lenfield")]
		old := lenFieldValue(f, lf)
		nv := old + uint32(rapid.IntRange(1, 5).Draw(t, "delta"))
		if rapid.Bool().Draw(t, "lower") && old > 0 {
			nv = old - 1
		}
		g := setLenField(f, lf, nv)
		if lf.Kind != ref.KRemLen {
			if fb, _, b2, ok := ref.Split(g); ok {
				g = ref.Reframe(fb, b2)
			}
		}
		return g, class + "/inconsistent-length", true
	case 5: // corrupt one byte
		if len(body) == 0 {
			return f, class + "/intact", nontrivial
		}
		g := append([]byte(nil), f...)
		pos := hdr + rapid.IntRange(0, len(body)-1).Draw(t, "pos")
		g[pos] = rapid.SampledFrom([]byte{0x00, 0x05, 0x7f, 0x80, 0xff}).Draw(t, "val")
		return g, class + "/corrupt-byte", true
	default: // other type nibble on the same body
		g := append([]byte(nil), f...)
		g[0] = rapid.SampledFrom([]byte{0x82, 0xa2, 0x90, 0xb0, 0x30, 0x10, 0x20, 0x40, 0xe0, 0xf0}).Draw(t, "nibble")
		return g, class + "/foreign-nibble", true
	}
}

func TestC05(t *testing.T) {
	curProp = "C05"
	r := vf.NewRec("C05")
	defer r.Finish(t)
	guard.StartWatchdog(*vf.Out, vf.Label("C05"))

	replayFrameCases(t, r, func(entry string, frame []byte) (bool, string, string) {
		if strings.HasPrefix(entry, "scaling:") {
			runtime.LockOSThread()
			defer runtime.UnlockOSThread()
			_, _, msg := scalingOf(strings.TrimPrefix(entry, "scaling:"))
			return false, "superlinear", msg
		}
		return checkC05(entry, frame)
	})
	if vf.ReplayOnly() {
		return
	}

	entriesFor := func(t *rapid.T, frame []byte) []string {
		e := []string{"ReadPacket"}
		if len(frame) > 0 {
			e = append(e, fmt.Sprintf("Unmarshal:%d", frame[0]>>4))
		}
		if total, _, err := ref.FrameLen(frame); err == nil && total == len(frame) && rapid.IntRange(0, 3).Draw(t, "open") == 0 {
			e = append(e, "ReadPacketOpen") // only complete frames: an incomplete one may wait
		}
		return e
	}
	sent := newSentinels()
	recent := &recentPackets{}
	sentinelCheck := func(t *rapid.T, frame []byte, entry string) {
		if d := sent.check(); d != "" {
			msg := fmt.Sprintf("decoding %s (%s) changed a packet returned earlier: %s", hx(frame), entry, d)
			r.Fail("decode", caseFrame{Frame: frame, Entry: entry, Note: "sentinel"}, "earlier-packet-changed", "%s", msg)
			t.Fatalf("%s", msg)
		}
		if d := recent.check(); d != "" {
			msg := fmt.Sprintf("decoding %s (%s) changed a packet returned earlier: %s", hx(frame), entry, d)
			r.Fail("decode", caseFrame{Frame: frame, Entry: entry, Note: "history", History: recent.history()}, "earlier-packet-changed", "%s", msg)
			*recent = recentPackets{}
			t.Fatalf("%s", msg)
		}
		if entry != "ReadPacketOpen" {
			recent.add(frame, entry, lastC05Packet)
		}
	}
	r.Rapid(t, "repeated-sections", vf.N(12000, 1500000), func(t *rapid.T) {
		c05Base = nil
		frame, class, nt := genRepeatedSection(t)
		if base := c05Base; base != nil && len(frame) < 1<<16 {
			if sig, msg := inflationCost(base, frame); msg != "" {
				r.Fail("decode", caseFrame{Frame: frame, Entry: "ReadPacket", Note: class, Base: base}, sig, "%s", msg)
				t.Fatalf("%s", msg)
			}
		}
		for _, entry := range entriesFor(t, frame) {
			_, sig, msg := checkC05(entry, frame)
			r.Case(vf.FPs(entry, string(frame)), nt, class, func() interface{} {
				return caseFrame{Frame: frame, Entry: entry, Note: class}
			})
			if msg != "" {
				r.Fail("decode", caseFrame{Frame: frame, Entry: entry, Note: class}, sig, "%s", msg)
				t.Fatalf("%s", msg)
			}
			sentinelCheck(t, frame, entry)
		}
	})
	r.Rapid(t, "hostile", vf.N(8000, 1000000), func(t *rapid.T) {
		frame, kind := genHostileFrame(t)
		for _, entry := range entriesFor(t, frame) {
			_, sig, msg := checkC05(entry, frame)
			r.Case(vf.FPs(entry, string(frame)), false, "hostile/"+kind, nil)
			if msg != "" {
				r.Fail("decode", caseFrame{Frame: frame, Entry: entry, Note: kind}, sig, "%s", msg)
				t.Fatalf("%s", msg)
			}
			sentinelCheck(t, frame, entry)
		}
	})
	if *vf.Shard == 0 && !r.Failed() {
		scalingC05(t, r)
	}
}

// scalingC05 is the metamorphic scaling relation: a frame with 32x the list
// elements (or payload bytes) must not cost more than 200x the CPU time nor
// allocate more than 200x the bytes of the small one. A decoder doing work
// proportional to the frame gives about 32x for both (CPU measured 20..70x
// under load, allocation 20..60x depending on where append regrowth falls); a quadratic one about 1000x. The CPU meter
// is the time of the calling OS thread (clock_gettime
// CLOCK_THREAD_CPUTIME_ID), which does not include waiting on a loaded
// machine; each timing is the minimum of 7 runs and a breach must repeat three
// times in a row. The allocation meter (runtime.MemStats.TotalAlloc around a
// single-goroutine call) does not depend on timing.
var scalingKinds = []string{"SUBSCRIBE/filters", "UNSUBSCRIBE/filters", "SUBACK/reason-codes", "PUBLISH/subscription-ids", "PUBLISH/user-properties", "CONNACK/user-properties", "CONNECT/will-user-properties", "PUBLISH/payload-bytes",
	"string/ascii", "string/two-byte-characters", "string/U+FFFD", "string/continuation-bytes", "string/distinct-user-property-keys"}

// stringUnits: what a string of the "string/..." kinds is made of.
var stringUnits = map[string]string{"string/ascii": "ab", "string/two-byte-characters": "\u00e9", "string/U+FFFD": "\ufffd", "string/continuation-bytes": "\x80\xbf"}

func scalingFrame(kind string, n int) []byte {
	m := model.New(model.PUBLISH)
	m.PacketID = 1
	if unit, ok := stringUnits[kind]; ok {
		// one user property whose value is n x 2 bytes of the unit (2 000 vs
		// 64 000 bytes: inside the 65 535 limit), in a PUBLISH
		m.TopicName = "t"
		v := strings.Repeat(unit, 2*n/len(unit))
		m.UserProps = []model.KV{{K: "k", V: v}}
		m.Normalize()
		return ref.Canonical(&m)
	}
	if kind == "string/distinct-user-property-keys" {
		// n user properties with pairwise different keys
		m.TopicName = "t"
		for i := 0; i < n; i++ {
			m.UserProps = append(m.UserProps, model.KV{K: fmt.Sprintf("k%05d", i), V: ""})
		}
		m.Normalize()
		return ref.Canonical(&m)
	}
	if kind == "PUBLISH/payload-bytes" {
		// n counts units of 256 bytes: 1000 -> 250 KiB, 32000 -> 7.8 MiB
		m.TopicName = "t"
		m.Payload = bytes.Repeat([]byte{0x5a}, n*256)
		m.Normalize()
		return ref.Canonical(&m)
	}
	for i := 0; i < n; i++ {
		switch kind {
		case "SUBSCRIBE/filters":
			m.Type = model.SUBSCRIBE
			m.Filters = append(m.Filters, model.Filter{Filter: fmt.Sprintf("t/%d", i), Opts: 1})
		case "UNSUBSCRIBE/filters":
			m.Type = model.UNSUBSCRIBE
			m.UnsubFilters = append(m.UnsubFilters, fmt.Sprintf("t/%d", i))
		case "SUBACK/reason-codes":
			m.Type = model.SUBACK
			m.ReasonCodes = append(m.ReasonCodes, uint8(i))
		case "PUBLISH/subscription-ids":
			m.TopicName = "t"
			m.SubIDs = append(m.SubIDs, uint32(i+1)) // distinct values
		case "PUBLISH/user-properties":
			m.TopicName = "t"
			m.UserProps = append(m.UserProps, model.KV{K: fmt.Sprintf("k%d", i), V: "v"})
		case "CONNACK/user-properties":
			m.Type = model.CONNACK
			m.UserProps = append(m.UserProps, model.KV{K: fmt.Sprintf("k%d", i), V: "v"})
		case "CONNECT/will-user-properties":
			m.Type = model.CONNECT
			m.ProtocolName, m.ProtocolVersion = "MQTT", 5
			if m.Will == nil {
				m.Will = &model.Will{Topic: "w"}
			}
			m.Will.UserProps = append(m.Will.UserProps, model.KV{K: fmt.Sprintf("k%d", i), V: "v"})
		}
	}
	m.Normalize()
	return ref.Canonical(&m)
}

const (
	scalingCPULimit   = 200.0
	scalingAllocLimit = 200.0
)

// scalingOf measures one kind; the caller holds the OS thread.
func scalingOf(kind string) (cpuRatio, allocRatio float64, msg string) {
	timeOf := func(frame []byte) float64 {
		best := 1e18
		for i := 0; i < 7; i++ {
			st := threadCPUNanos()
			_, _ = mqRead(frame)
			if d := float64(threadCPUNanos() - st); d < best {
				best = d
			}
		}
		if best < 1000 {
			best = 1000 // clock granularity
		}
		return best
	}
	allocOf := func(frame []byte) float64 {
		best := 1e18
		var a, b runtime.MemStats
		for i := 0; i < 3; i++ {
			runtime.ReadMemStats(&a)
			_, _ = mqRead(frame)
			runtime.ReadMemStats(&b)
			if d := float64(b.TotalAlloc - a.TotalAlloc); d < best {
				best = d
			}
		}
		if best < 1024 {
			best = 1024
		}
		return best
	}
	small, big := scalingFrame(kind, 1000), scalingFrame(kind, 32000)
	breaches := 0
	for try := 0; try < 3; try++ {
		cpuRatio = timeOf(big) / timeOf(small)
		if cpuRatio > scalingCPULimit {
			breaches++
		} else {
			break
		}
	}
	allocRatio = allocOf(big) / allocOf(small)
	// what a frame costs does not depend on what was decoded before it: a
	// tiny frame of the same kind, measured before and right after the big one
	tiny := scalingFrame(kind, 2)
	before := allocOf(tiny)
	_, _ = mqRead(big)
	var a, b runtime.MemStats
	runtime.ReadMemStats(&a)
	_, _ = mqRead(tiny)
	runtime.ReadMemStats(&b)
	after := float64(b.TotalAlloc - a.TotalAlloc)
	if after > before+16<<10 {
		return cpuRatio, allocRatio, fmt.Sprintf("decoding a %d-byte %s frame allocates %.0f bytes; right after a %d-byte frame of the same kind was decoded, the same small frame allocates %.0f bytes: what a frame costs depends on the frame before it", len(tiny), kind, before, len(big), after)
	}
	switch {
	case breaches == 3:
		msg = fmt.Sprintf("decoding %s with 32x the elements took %.0fx the CPU time (three times in a row, min of 7 runs each); a decoder doing work proportional to the frame takes about 32x, a quadratic one about 1000x", kind, cpuRatio)
	case allocRatio > scalingAllocLimit:
		msg = fmt.Sprintf("decoding %s with 32x the elements (frames of %d and %d bytes) allocated %.0fx the bytes (%.0f vs %.0f bytes, least of 3 runs each); memory proportional to the frame gives about 32x, limit %.0fx", kind, len(small), len(big), allocRatio, allocOf(big), allocOf(small), scalingAllocLimit)
	}
	return
}

func scalingC05(t *testing.T, r *vf.Rec) {
	runtime.LockOSThread()
	defer runtime.UnlockOSThread()
	for _, kind := range scalingKinds {
		cpu, alloc, msg := scalingOf(kind)
		r.Case(vf.FPs("scaling", kind), true, "scaling/"+kind, func() interface{} {
			return map[string]interface{}{"list": kind, "elements": []int{1000, 32000}, "cpu_time_ratio": cpu, "allocated_bytes_ratio": alloc}
		})
		r.Note("scaling %s: 32000 vs 1000 elements cost %.1fx the CPU time (limit %.0fx) and %.1fx the allocated bytes (limit %.0fx)", kind, cpu, scalingCPULimit, alloc, scalingAllocLimit)
		if msg != "" {
			r.Fail("scaling", caseFrame{Frame: []byte{0xc0, 0}, Entry: "scaling:" + kind, Note: "1000 vs 32000 elements"}, "superlinear:"+kind, "%s", msg)
		}
	}
}

func mqRead(frame []byte) (interface{}, error) {
	p, err, _ := decodeVia("ReadPacket", frame)
	return p, err
}

var _ = bytes.Equal

// FuzzDecodeBounded is the native fuzz target with the C05 oracle inside.
func FuzzDecodeBounded(f *testing.F) {
	for _, s := range fuzzSeeds() {
		f.Add(s)
	}
	guard.HangTime = 10e9
	f.Fuzz(func(t *testing.T, data []byte) {
		if len(data) > 1<<16 {
			return
		}
		// keep declared sizes moderate so that a worker does not spend its
		// time zeroing 256 MiB buffers
		if total, _, err := ref.FrameLen(data); err == nil && total > 1<<20 {
			return
		}
		done := make(chan struct{})
		var sig, msg string
		go func() {
			defer close(done)
			_, sig, msg = checkC05("ReadPacket", data)
		}()
		select {
		case <-done:
		case <-afterSeconds(20):
			t.Fatalf("hang: ReadPacket did not return within 20 s on %s", hx(data))
		}
		if msg != "" {
			t.Fatalf("%s: %s", sig, msg)
		}
	})
}
