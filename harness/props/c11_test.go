package props

import (
	"bytes"
	"encoding/json"
	"flag"
	"fmt"
	"io"
	"os"
	"os/exec"
	"path/filepath"
	"testing"
	"time"

	"github.com/gregoryv/mq"
	"pgregory.net/rapid"

	"verif/harness/api"
	"verif/harness/gen"
	"verif/harness/guard"
	"verif/harness/model"
	"verif/harness/ref"
	"verif/harness/vf"
)

// C11 — encoding is deterministic and read-only.

var (
	c11In  = flag.String("vf.c11in", "", "child mode: case list to encode")
	c11Out = flag.String("vf.c11out", "", "child mode: where to write the encodings")
)

type caseC11 struct {
	ModelGob string     `json:"model_gob"`
	Model    string     `json:"model"`
	Plan     []api.Step `json:"plan"`
	Ops      []int      `json:"ops"` // read-only operations interleaved between encodings
	// Wire: the packet is not built through the API but decoded from the
	// reference encoding of the model in this style.
	Wire  bool      `json:"wire,omitempty"`
	Style styleJSON `json:"style,omitempty"`
	// Other: frames of OTHER packets decoded between the encodings (operation
	// 5 takes the next one); decoding one packet must not change another.
	Other []preOp `json:"other,omitempty"`
	// Repeat: number of encodings when larger than the default 16 ("any
	// number of times": counters, quotas and caches that only change
	// behaviour after many calls).
	Repeat int `json:"repeat,omitempty"`
	// Pause: found by the "after a pause" stage (the whole stage is re-run on replay).
	Pause bool `json:"pause,omitempty"`
}

var roOpNames = []string{"WriteTo", "String", "Dump", "WellFormed", "Accessors", "decode another packet"}

func doReadOnly(p mq.ControlPacket, op int) {
	switch op {
	case 0:
		_, _ = p.WriteTo(io.Discard)
	case 1:
		_ = p.String()
	case 2:
		mq.Dump(io.Discard, p)
	case 3:
		if wf, ok := p.(mq.HasWellFormed); ok {
			_ = wf.WellFormed()
		}
	case 4:
		_ = api.Observe(p)
	}
}

const c11Encodings = 16

func checkC11(c caseC11) (frame []byte, sig, msg string) {
	guard.SetCurrent(func() []byte {
		return mustJSON(vf.Failure{Property: "C11", Kind: "hang", Case: mustJSON(c), Signature: "hang", Message: "a library call made for this case did not return"})
	})
	defer guard.SetCurrent(nil)
	if c.Pause {
		if _, msg := pauseStage(); msg != "" {
			return nil, "clock-dependent", msg
		}
		return nil, "", ""
	}
	m, err := unpackModel(c.ModelGob)
	if err != nil {
		return nil, "harness", "harness: " + err.Error()
	}
	var first []byte
	pan := guard.Call(func() {
		var p mq.ControlPacket
		if c.Wire {
			f, _ := ref.Encode(&m, c.Style.style())
			q, err, rp := read(f)
			if rp != nil || err != nil || q == nil {
				return // not accepted: nothing to judge here (C03 decides acceptance)
			}
			p = q
		} else {
			p = api.Build(&m, c.Plan)
		}
		snap := api.Observe(p)
		first, _, _ = api.Encode(p)
		enc := 1
		step := func(what string) {
			if d := model.Diff(api.Observe(p), snap); d != "" && msg == "" {
				sig, msg = "mutated-by:"+what, fmt.Sprintf("accessor values changed after %s: %s", what, d)
			}
		}
		nextOther := 0
		encodings := c11Encodings
		if c.Repeat > encodings {
			encodings = c.Repeat
		}
		for i := 0; enc < encodings || i < len(c.Ops); i++ {
			if i < len(c.Ops) {
				if c.Ops[i] == 5 {
					if nextOther < len(c.Other) {
						o := c.Other[nextOther]
						nextOther++
						_, _, _ = decodeVia(o.Entry, o.Frame)
					}
				} else {
					doReadOnly(p, c.Ops[i])
				}
				step(roOpNames[c.Ops[i]])
			}
			b, _, _ := api.Encode(p)
			enc++
			step("WriteTo")
			if !bytes.Equal(b, first) && msg == "" {
				sig, msg = "nondeterministic", fmt.Sprintf("encoding %d of the same packet differs from the first:\n first %s\n later %s", enc, hx(first), hx(b))
			}
		}
	})
	if pan != nil {
		return first, "panic", fmt.Sprintf("panic: %v\n%s", pan.Value, pan.Stack)
	}
	return first, sig, msg
}

func emittedWillProps(m *model.Packet) int {
	if m.Will == nil {
		return 0
	}
	n := 0
	for _, b := range []bool{m.WillDelay != 0, m.Will.PayloadFormat, m.Will.MessageExpiry != 0, m.Will.ContentType != "", m.Will.ResponseTopic != "", len(m.Will.CorrelationData) > 0} {
		if b {
			n++
		}
	}
	return n
}

// genC11 weights CONNECT with several will properties and the map-ranging
// encoders (SUBSCRIBE, SUBACK, UNSUBACK).
func genC11(t *rapid.T) model.Packet {
	typ := rapid.SampledFrom([]uint8{1, 1, 1, 1, 1, 8, 8, 9, 11, 2, 3, 4, 5, 6, 7, 10, 12, 13, 14, 15}).Draw(t, "type")
	m := genC01(t, typ)
	if typ == model.CONNECT && rapid.IntRange(0, 2).Draw(t, "richwill") > 0 {
		o := gen.Opts{WellFormed: true, NoHuge: true}
		if m.Will == nil {
			m.Will = gen.Will(t, o)
		}
		w := m.Will
		m.WillDelay = gen.U32(t, "wd") | 1
		w.PayloadFormat = true
		w.MessageExpiry = gen.U32(t, "we") | 1
		w.ContentType = gen.NonEmptyStr(t, "wc", o)
		w.ResponseTopic = gen.NonEmptyStr(t, "wr", o)
		w.CorrelationData = []byte(gen.NonEmptyStr(t, "wcd", o))
		m.Normalize()
	}
	return m
}

func TestC11(t *testing.T) {
	if *c11In != "" {
		c11Child(t)
		return
	}
	curProp = "C11"
	r := vf.NewRec("C11")
	defer r.Finish(t)
	guard.StartWatchdog(*vf.Out, vf.Label("C11"))

	for _, rf := range r.LoadReplays(t) {
		var c caseC11
		if err := json.Unmarshal(rf.Case, &c); err != nil {
			t.Fatalf("replay %s: %v", rf.Source, err)
		}
		_, _, msg := checkC11(c)
		r.Case(vf.FPs("replay", c.ModelGob), true, "replay", func() interface{} { return c.Model })
		if msg != "" {
			r.FailReplay(rf, "%s", msg)
		}
	}
	if vf.ReplayOnly() {
		return
	}

	// volume: one small packet of every type encoded very many times in this
	// process (shard 0 only, so that the count per process is what it says)
	if *vf.Shard == 0 {
		vol := 70000 // not divided among shards: the count per process matters
		if vf.Thorough() {
			vol = 1200000
		}
		for _, f := range fuzzSeeds()[:30] {
			m, err := ref.DecodeStrict(f)
			if err != nil || (m.Type == model.DISCONNECT && !api.DisconnectHasSetters() && (m.ReasonString != "" || m.SessionExpiry != 0 || m.ServerReference != "")) {
				continue
			}
			if m.Type == model.PUBLISH && m.QoS == 0 {
				m.QoS, m.PacketID = 2, 9 // both acknowledged service levels occur
			}
			c := caseC11{ModelGob: packModel(m), Model: m.String(), Plan: api.Plan(&m, nil, nil), Repeat: vol}
			_, sig, msg := checkC11(c)
			r.Evals(int64(vol))
			r.Case(vf.FPs("volume", c.ModelGob), true, "volume/"+typeName(m.Type), func() interface{} {
				return map[string]interface{}{"model": m.String(), "encodings": vol}
			})
			if msg != "" {
				r.Fail("encode", c, sig, "%s\nmodel: %s", msg, m.String())
				break
			}
		}
	}

	// after a pause (shard 0): see pauseStage
	if *vf.Shard == 0 {
		n, msg := pauseStage()
		for k := 0; k < n; k++ {
			r.Case(vf.FPs("pause", fmt.Sprint(k)), true, "after-a-pause", func() interface{} { return "packet " + fmt.Sprint(k) + " of the pause stage" })
		}
		if msg != "" {
			r.Fail("encode", caseC11{Model: "pause stage", Pause: true}, "clock-dependent", "%s", msg)
		}
	}

	var forChildren []caseC11
	var firstEnc [][]byte
	wantChildren := vf.N(3200, 100000)
	r.Rapid(t, "in-process", vf.N(6000, 1200000), func(t *rapid.T) {
		m := genC11(t)
		plan := drawPlan(t, &m)
		ops := rapid.SliceOfN(rapid.IntRange(0, 5), 0, 12).Draw(t, "ops")
		c := caseC11{ModelGob: packModel(m), Model: m.String(), Plan: plan, Ops: ops}
		for _, o := range ops {
			if o == 5 {
				pre := drawPreludeN(t, 1)
				c.Other = append(c.Other, pre...)
			}
		}
		frame, sig, msg := checkC11(c)
		wp := emittedWillProps(&m)
		nt := wp >= 2 || len(ops) >= 3
		class := typeName(m.Type)
		if wp >= 2 {
			class += fmt.Sprintf("/willprops>=2")
		}
		r.Case(vf.FPs(c.ModelGob, fmt.Sprint(plan, ops)), nt, class, func() interface{} {
			return map[string]interface{}{"model": m.String(), "read_only_ops": ops, "encodings": c11Encodings, "frame": hx(frame)}
		})
		if msg != "" {
			r.Fail("determinism", c, sig, "%s\nmodel: %s", msg, m.String())
			t.Fatalf("%s", msg)
		}
		if len(forChildren) < wantChildren && len(frame) < 4096 {
			forChildren = append(forChildren, c)
			firstEnc = append(firstEnc, frame)
		}
	})
	r.Rapid(t, "decoded", vf.N(5000, 1000000), func(t *rapid.T) {
		typ := rapid.SampledFrom([]uint8{1, 1, 1, 2, 3, 3, 4, 5, 6, 7, 8, 8, 9, 10, 11, 14, 15}).Draw(t, "type")
		m := genSpecValid(t, typ)
		st := drawStyle(t)
		ops := rapid.SliceOfN(rapid.IntRange(0, 4), 0, 10).Draw(t, "ops")
		c := caseC11{ModelGob: packModel(m), Model: m.String(), Ops: ops, Wire: true, Style: st}
		frame, sig, msg := checkC11(c)
		r.Case(vf.FPs("wire", c.ModelGob, fmt.Sprint(st, ops)), len(ops) >= 3 || emittedWillProps(&m) >= 2, typeName(m.Type)+"/decoded", func() interface{} {
			return map[string]interface{}{"model": m.String(), "decoded_from_wire": true, "read_only_ops": ops, "frame": hx(frame)}
		})
		if msg != "" {
			r.Fail("determinism", c, sig, "%s\nmodel (decoded from the wire): %s", msg, m.String())
			t.Fatalf("%s", msg)
		}
	})
	if r.Failed() {
		return
	}

	// across processes: the same case list (passed as data) is encoded in
	// fresh children with their own hash seeds
	children := 3
	if vf.Thorough() {
		children = 8
	}
	dir, err := os.MkdirTemp(*vf.Out, "c11-")
	if err != nil {
		dir, err = os.MkdirTemp("", "c11-")
		if err != nil {
			t.Fatalf("temp dir: %v", err)
		}
	}
	defer os.RemoveAll(dir)
	in := filepath.Join(dir, "cases.json")
	b, _ := json.Marshal(forChildren)
	if err := os.WriteFile(in, b, 0o644); err != nil {
		t.Fatalf("write cases: %v", err)
	}
	for ch := 0; ch < children; ch++ {
		out := filepath.Join(dir, fmt.Sprintf("enc%d.json", ch))
		cmd := exec.Command(os.Args[0], "-test.run", "^TestC11$", "-vf.c11in="+in, "-vf.c11out="+out)
		cmd.Env = os.Environ()
		if o, err := cmd.CombinedOutput(); err != nil {
			r.Note("child %d failed: %v %s", ch, err, o)
			t.Fatalf("child process failed: %v\n%s", err, o)
		}
		ob, err := os.ReadFile(out)
		if err != nil {
			t.Fatalf("child output: %v", err)
		}
		var encs []Hex
		if err := json.Unmarshal(ob, &encs); err != nil || len(encs) != len(forChildren) {
			t.Fatalf("child output: %v (%d of %d)", err, len(encs), len(forChildren))
		}
		for i := range encs {
			r.Case(vf.FPs("child", fmt.Sprint(ch), forChildren[i].ModelGob, fmt.Sprint(forChildren[i].Plan)), true, "cross-process", nil)
			if !bytes.Equal(encs[i], firstEnc[i]) {
				r.Fail("determinism", forChildren[i], "nondeterministic-across-processes", "another process encodes the same packet differently:\n here  %s\n there %s\nmodel: %s", hx(firstEnc[i]), hx(encs[i]), forChildren[i].Model)
				return
			}
		}
	}
	r.Note("%d cases re-encoded in %d fresh processes", len(forChildren), children)
}

func c11Child(t *testing.T) {
	b, err := os.ReadFile(*c11In)
	if err != nil {
		t.Fatal(err)
	}
	var cases []caseC11
	if err := json.Unmarshal(b, &cases); err != nil {
		t.Fatal(err)
	}
	out := make([]Hex, len(cases))
	for i, c := range cases {
		m, err := unpackModel(c.ModelGob)
		if err != nil {
			t.Fatal(err)
		}
		p := api.Build(&m, c.Plan)
		out[i], _, _ = api.Encode(p)
	}
	ob, _ := json.Marshal(out)
	if err := os.WriteFile(*c11Out, ob, 0o644); err != nil {
		t.Fatal(err)
	}
}

// pauseStage: packets (built and decoded, with every interval-like property
// set) are encoded, the process sleeps for a good second and encodes them
// again - the bytes do not depend on the clock. It returns the number of
// packets and a message if one of them changed.
func pauseStage() (int, string) {
	type held struct {
		p     mq.ControlPacket
		first []byte
		desc  string
	}
	var hs []held
	for _, f := range fuzzSeeds()[:30] {
		m, err := ref.DecodeStrict(f)
		if err != nil {
			continue
		}
		switch m.Type {
		case model.PUBLISH:
			m.MessageExpiry = 3600
		case model.CONNECT:
			m.SessionExpiry, m.WillDelay, m.KeepAlive = 7200, 30, 60
			if m.Will != nil {
				m.Will.MessageExpiry = 600
			}
		case model.CONNACK:
			m.SessionExpiry, m.ServerKeepAlive = 7200, 120
		}
		m.Normalize()
		frame := ref.Canonical(&m)
		if q, err, pan := read(frame); pan == nil && err == nil && q != nil {
			b, _, _ := api.Encode(q)
			hs = append(hs, held{q, b, "decoded " + m.String()})
		}
		if m.Type == model.DISCONNECT && !api.DisconnectHasSetters() {
			continue
		}
		var bp mq.ControlPacket
		if pan := guard.Call(func() { bp = api.BuildDefault(&m) }); pan == nil && bp != nil {
			b, _, _ := api.Encode(bp)
			hs = append(hs, held{bp, b, "built " + m.String()})
		}
	}
	time.Sleep(1200 * time.Millisecond)
	for _, h := range hs {
		b, _, _ := api.Encode(h.p)
		if !bytes.Equal(b, h.first) {
			return len(hs), fmt.Sprintf("the same packet encodes differently 1.2 s later:\n first %s\n later %s\n%s", hx(h.first), hx(b), h.desc)
		}
	}
	return len(hs), ""
}
