package props

import (
	"bytes"
	"encoding/json"
	"fmt"
	"strings"
	"testing"

	"github.com/gregoryv/mq"
	"pgregory.net/rapid"

	"verif/harness/api"
	"verif/harness/gen"
	"verif/harness/guard"
	"verif/harness/model"
	"verif/harness/ref"
	"verif/harness/vf"
)

// C17 — WellFormed decides exactly the documented rules and String agrees.

type caseC17 struct {
	ModelGob string `json:"model_gob"`
	Model    string `json:"model"`
	Wire     bool   `json:"wire"` // decode from a reference-encoded frame instead of building through the API
	// Via: how the Publish value is obtained. "" = stand-alone; "attached" =
	// built (or decoded) and then passed to Connect.SetWill, the caller still
	// holds and judges the same *Publish; "will-decoded" = the value returned
	// by Will() of a CONNECT decoded from a frame that carries it as its will.
	Via string `json:"via,omitempty"`
	// Zeros: zero values are made explicit - through the API every setter is
	// called, also with its zero value (SetTopicAlias(0)); on the wire the
	// zero-valued properties are transmitted (topic alias 0 included: if the
	// decoder accepts that frame, the packet is judged like any other).
	Zeros bool `json:"zeros,omitempty"`
	// Reused (wire): the frame is decoded with UnmarshalBinary into a value
	// that already held a packet of the same type with the opposite verdict
	// and was rendered with String() before (a read loop reusing one value).
	Reused bool `json:"reused,omitempty"`
}

// reference predicates, written from the statement
func publishMalformed(m *model.Packet) bool {
	if m.TopicName == "" && m.TopicAlias == 0 {
		return true
	}
	if (m.QoS == 1 || m.QoS == 2) && m.PacketID == 0 {
		return true
	}
	return m.QoS == 3
}

func filterMalformed(f model.Filter) bool { return f.Filter == "" || f.Opts&3 == 3 }

func subscribeMalformed(m *model.Packet) bool {
	if len(m.Filters) == 0 {
		return true
	}
	if m.SubID > 268435455 {
		return true
	}
	for _, f := range m.Filters {
		if filterMalformed(f) {
			return true
		}
	}
	return false
}

func checkC17(c caseC17) (sig, msg string) {
	guard.SetCurrent(func() []byte {
		return mustJSON(vf.Failure{Property: "C17", Kind: "hang", Case: mustJSON(c), Signature: "hang", Message: "a library call made for this case did not return"})
	})
	defer guard.SetCurrent(nil)
	m, err := unpackModel(c.ModelGob)
	if err != nil {
		return "harness", "harness: " + err.Error()
	}
	var p mq.ControlPacket
	if c.Wire {
		frame := ref.Canonical(&m)
		if c.Zeros {
			st := ref.Style{ExplicitZero: map[byte]bool{0x23: true, 0x01: true, 0x02: true, 0x0b: true}, Form: 2}
			frame, _ = ref.Encode(&m, st)
		}
		if m.Type == model.PUBLISH && m.QoS == 3 {
			// both QoS bits set: body without packet identifier
			mm := m.Clone()
			mm.QoS = 0
			frame = ref.Canonical(&mm)
			if c.Zeros {
				frame, _ = ref.Encode(&mm, ref.Style{ExplicitZero: map[byte]bool{0x23: true, 0x01: true, 0x02: true}, Form: 2})
			}
			frame[0] |= 6
		}
		q, err, pan := read(frame)
		if pan != nil {
			return "panic", fmt.Sprintf("ReadPacket panicked: %v", pan.Value)
		}
		if err != nil {
			return "", "" // not accepted: nothing to judge (C03/C09 decide acceptance)
		}
		if c.Reused && (m.Type == model.PUBLISH || m.Type == model.SUBSCRIBE) && !(m.Type == model.PUBLISH && m.QoS == 3) {
			// the value is first filled by ReadPacket from a frame with the
			// same first byte and the opposite verdict, rendered, and then
			// the real body is decoded into it
			other := model.New(m.Type)
			if m.Type == model.PUBLISH {
				other.QoS, other.Dup, other.Retain = m.QoS, m.Dup, m.Retain
				other.TopicName = "x"
				if m.QoS > 0 {
					other.PacketID = 5
				}
				if !publishMalformed(&m) { // make the other one malformed
					if m.QoS > 0 {
						other.PacketID = 0
					} else {
						other.TopicName = ""
					}
				}
			} else {
				other.PacketID = 3
				other.Filters = []model.Filter{{Filter: "x", Opts: 1}}
				if !subscribeMalformed(&m) {
					other.Filters[0].Opts = 3
				}
			}
			other.Normalize()
			of := ref.Canonical(&other)
			of[0] = frame[0]
			if v, oerr, opan := read(of); opan == nil && oerr == nil && v != nil && api.TypeOf(v) == int(m.Type) {
				_, _, body, _ := ref.Split(frame)
				var derr error
				if pan := guard.Call(func() {
					_ = v.String()
					if wf, ok := v.(mq.HasWellFormed); ok {
						_ = wf.WellFormed()
					}
					derr = v.UnmarshalBinary(append([]byte(nil), body...))
				}); pan != nil {
					return "panic", fmt.Sprintf("decoding into a used value panicked: %v", pan.Value)
				}
				if derr == nil {
					q = v
				}
			}
		}
		p = q
		// judge by what the decoded packet reports
		m = api.Observe(q)
	} else {
		if pan := guard.Call(func() {
			if c.Zeros {
				p = api.Build(&m, api.Plan(&m, nil, make([]bool, len(api.Setters(m.Type)))))
			} else {
				p = api.BuildDefault(&m)
			}
		}); pan != nil {
			return "panic", fmt.Sprintf("build panicked: %v", pan.Value)
		}
	}
	if pp, ok := p.(*mq.Publish); ok && c.Via == "attached" {
		if pan := guard.Call(func() {
			cn := mq.NewConnect()
			cn.SetClientID("c17")
			cn.SetWill(pp)
			_, _, _ = api.Encode(cn)
		}); pan != nil {
			return "panic", fmt.Sprintf("SetWill panicked: %v", pan.Value)
		}
	}
	if pp, ok := p.(*mq.Publish); ok && c.Via == "will-decoded" {
		cm := model.New(model.CONNECT)
		cm.ClientID = "c17"
		w := api.Observe(pp)
		q := w.QoS
		if q > 2 {
			q = 2 // a will cannot carry QoS 3
		}
		cm.Will = &model.Will{Topic: w.TopicName, Payload: w.Payload, QoS: q, Retain: w.Retain, PayloadFormat: w.PayloadFormat,
			MessageExpiry: w.MessageExpiry, ContentType: w.ContentType, ResponseTopic: w.ResponseTopic, CorrelationData: w.CorrelationData, UserProps: w.UserProps}
		cm.Normalize()
		dq, err, pan := read(ref.Canonical(&cm))
		if pan != nil {
			return "panic", fmt.Sprintf("ReadPacket panicked: %v", pan.Value)
		}
		dc, isConnect := dq.(*mq.Connect)
		if err != nil || !isConnect || dc.Will() == nil {
			return "", "" // acceptance is judged elsewhere
		}
		p = dc.Will()
		m = api.Observe(p)
	}
	wf, ok := p.(mq.HasWellFormed)
	if !ok {
		return "harness", fmt.Sprintf("harness: %T has no WellFormed", p)
	}
	var want bool
	switch m.Type {
	case model.PUBLISH:
		want = publishMalformed(&m)
	case model.SUBSCRIBE:
		want = subscribeMalformed(&m)
	}
	var got bool
	var s string
	if pan := guard.Call(func() { got = wf.WellFormed() != nil; s = p.String() }); pan != nil {
		return "panic", fmt.Sprintf("WellFormed/String panicked: %v", pan.Value)
	}
	if got != want {
		return fmt.Sprintf("wellformed:%s:want-error=%v", typeName(m.Type), want), fmt.Sprintf("%s.WellFormed() reports error=%v, the documented rules say error=%v\nmodel: %s", typeName(m.Type), got, want, m.String())
	}
	// String: tail after the final " bytes" is empty <=> no error
	i := strings.LastIndex(s, " bytes")
	if i < 0 {
		return "string-format", fmt.Sprintf("String() %q has no size", s)
	}
	tail := s[i+len(" bytes"):]
	if m.Type == model.PUBLISH || m.Type == model.SUBSCRIBE {
		hasSuffix := strings.HasPrefix(tail, ", malformed! ")
		if want && !hasSuffix || !want && tail != "" {
			return "string-suffix", fmt.Sprintf("String() = %q; WellFormed error=%v", s, want)
		}
	}
	// TopicFilter.WellFormed applies the per-filter rule
	if sp, ok := p.(*mq.Subscribe); ok {
		for i, f := range sp.Filters() {
			f := f
			got := f.WellFormed() != nil
			want := filterMalformed(m.Filters[i])
			if got != want {
				return "filter-wellformed", fmt.Sprintf("TopicFilter{%q, %08b}.WellFormed() error=%v, rule says %v", m.Filters[i].Filter, m.Filters[i].Opts, got, want)
			}
		}
	}
	return "", ""
}

func TestC17(t *testing.T) {
	curProp = "C17"
	r := vf.NewRec("C17")
	defer r.Finish(t)
	guard.StartWatchdog(*vf.Out, vf.Label("C17"))

	for _, rf := range r.LoadReplays(t) {
		var c caseC17
		if err := json.Unmarshal(rf.Case, &c); err != nil {
			t.Fatalf("replay %s: %v", rf.Source, err)
		}
		_, msg := checkC17(c)
		r.Case(vf.FPs("replay", c.ModelGob), true, "replay", func() interface{} { return c.Model })
		if msg != "" {
			r.FailReplay(rf, "%s", msg)
		}
	}
	if vf.ReplayOnly() {
		return
	}

	zeros := false
	reusedNext := false // every other wire case decodes into a used value
	runVia := func(m model.Packet, wire bool, via, class string, nt bool) (caseC17, string, string) {
		m.Normalize()
		c := caseC17{ModelGob: packModel(m), Model: m.String(), Wire: wire, Via: via, Zeros: zeros, Reused: wire && via == "" && reusedNext}
		reusedNext = !reusedNext
		if zeros {
			class += "/explicit-zeros"
		}
		sig, msg := checkC17(c)
		if via != "" {
			class += "/" + via
		}
		if c.Reused {
			class += "/into-used-value"
		}
		r.Case(vf.FPs(c.ModelGob, fmt.Sprint(wire, zeros, c.Reused), via), nt, class, func() interface{} {
			return map[string]interface{}{"model": m.String(), "decoded_from_wire": wire, "via": via, "explicit_zeros": c.Zeros, "decoded_into_used_value": c.Reused}
		})
		return c, sig, msg
	}
	run := func(m model.Packet, wire bool, class string, nt bool) (caseC17, string, string) {
		return runVia(m, wire, "", class, nt)
	}

	// the complete Publish condition cube: topic x alias x QoS 0..3 x packet id
	if *vf.Shard == 0 {
		for _, topic := range []string{"", "a/b"} {
			for _, alias := range []uint16{0, 7} {
				for qos := uint8(0); qos <= 3; qos++ {
					for _, id := range []uint16{0, 9} {
						for _, wire := range []bool{false, true} {
							m := model.New(model.PUBLISH)
							m.TopicName, m.TopicAlias, m.QoS, m.PacketID = topic, alias, qos, id
							nt := topic == "" && alias != 0 || qos == 0 && id == 0
							for _, via := range []string{"", "attached", "will-decoded"} {
								for _, z := range []bool{false, true} {
									zeros = z
									c, sig, msg := runVia(m, wire, via, "publish-cube", nt)
									if msg != "" {
										r.Fail("wellformed", c, sig, "%s", msg)
									}
								}
								zeros = false
							}
						}
					}
				}
			}
		}
		// all 256 option bytes x empty / non-empty filter
		for o := 0; o < 256; o++ {
			for _, f := range []string{"", "a/#"} {
				for _, wire := range []bool{false, true} {
					m := model.New(model.SUBSCRIBE)
					m.PacketID = 1
					m.Filters = []model.Filter{{Filter: "ok", Opts: 1}, {Filter: f, Opts: uint8(o)}}
					c, sig, msg := run(m, wire, "subscribe-option-bytes", o&3 != 3 && f != "")
					if msg != "" {
						r.Fail("wellformed", c, sig, "%s", msg)
					}
				}
			}
		}
		// subscription identifier boundary
		for _, id := range []int{-1, 0, 1, 268435454, 268435455, 268435456, 1 << 31} {
			for _, wire := range []bool{false, true} {
				if wire && id > 268435455 {
					continue // not encodable as a variable byte integer
				}
				m := model.New(model.SUBSCRIBE)
				m.PacketID, m.SubID = 1, id
				m.Filters = []model.Filter{{Filter: "a", Opts: 0}}
				c, sig, msg := run(m, wire, "subscribe-subid-boundary", id == 268435455 || id == 0)
				if msg != "" {
					r.Fail("wellformed", c, sig, "%s", msg)
				}
			}
		}
		r.Exhaustive("Publish condition cube (2x2x4x2 cells, API and wire), all 256 subscription option bytes x empty/non-empty filter, subscription identifier boundary values")
	}

	r.Rapid(t, "publish", vf.N(16000, 2000000), func(t *rapid.T) {
		m := gen.Packet(t, model.PUBLISH, gen.Opts{NoHuge: true})
		// steer the four deciding fields uniformly
		if rapid.Bool().Draw(t, "emptytopic") {
			m.TopicName = ""
		} else if rapid.IntRange(0, 15).Draw(t, "hugetopic") == 0 {
			// the largest topic names a frame can carry are still well formed
			m.TopicName = string(bytes.Repeat([]byte{'t'}, rapid.SampledFrom([]int{65533, 65534, 65535}).Draw(t, "hugetopiclen")))
		}
		if rapid.Bool().Draw(t, "noalias") {
			m.TopicAlias = 0
		} else if m.TopicAlias == 0 {
			m.TopicAlias = gen.U16NonZero(t, "alias")
		}
		m.QoS = uint8(rapid.IntRange(0, 3).Draw(t, "qos"))
		if rapid.Bool().Draw(t, "noid") {
			m.PacketID = 0
		}
		wire := rapid.Bool().Draw(t, "wire")
		bad := publishMalformed(&m)
		nt := !bad && (m.TopicName == "" || m.PacketID == 0)
		via := rapid.SampledFrom([]string{"", "", "", "attached", "will-decoded"}).Draw(t, "via")
		zeros = rapid.IntRange(0, 3).Draw(t, "zeros") == 0
		defer func() { zeros = false }()
		c, sig, msg := runVia(m, wire, via, fmt.Sprintf("publish/malformed=%v", bad), nt)
		if msg != "" {
			r.Fail("wellformed", c, sig, "%s", msg)
			t.Fatalf("%s", msg)
		}
	})
	r.Rapid(t, "subscribe", vf.N(16000, 2000000), func(t *rapid.T) {
		m := gen.Packet(t, model.SUBSCRIBE, gen.Opts{NoHuge: true})
		switch rapid.IntRange(0, 5).Draw(t, "subid") {
		case 0:
			m.SubID = -1
		case 1:
			m.SubID = rapid.SampledFrom([]int{0, 1, 268435454, 268435455, 268435456, 268435457, 1 << 40}).Draw(t, "subidv")
		}
		wire := rapid.Bool().Draw(t, "wire")
		if wire && m.SubID > 268435455 {
			wire = false
		}
		bad := subscribeMalformed(&m)
		c, sig, msg := run(m, wire, fmt.Sprintf("subscribe/malformed=%v", bad), !bad && len(m.Filters) > 1)
		if msg != "" {
			r.Fail("wellformed", c, sig, "%s", msg)
			t.Fatalf("%s", msg)
		}
	})
}
