package props

import (
	"bufio"
	"encoding/json"
	"errors"
	"fmt"
	"io"
	"testing"
	"time"

	"pgregory.net/rapid"

	"verif/harness/api"
	"verif/harness/gen"
	"verif/harness/guard"
	"verif/harness/model"
	"verif/harness/ref"
	"verif/harness/vf"
)

// C06 — ReadPacket consumes exactly one frame from the stream.

type caseC06 struct {
	Frames   []Hex  `json:"frames"`
	Trailing Hex    `json:"trailing,omitempty"`
	Bytewise bool   `json:"bytewise,omitempty"` // deliver the stream one byte per Read
	Reader   string `json:"reader,omitempty"`   // concrete reader type: script (default), bytes.Reader, bytes.Buffer, bufio16, bufio4096, chunklen
	// EOFWithLast: the read that delivers the last bytes of the stream also returns io.EOF.
	EOFWithLast bool `json:"eof_with_last,omitempty"`
	// Open: the stream stays open after the last byte (a live connection): a Read
	// beyond the data blocks instead of returning io.EOF.
	Open    bool    `json:"open,omitempty"`
	Prelude []preOp `json:"prelude,omitempty"`
	// ZeroRun: after ZeroRunAt bytes of the stream the reader answers
	// ZeroRunLen times (0, nil) before it goes on (a polling reader that comes
	// back empty; only for readers without a bufio layer, which gives up
	// after 100 empty reads by itself).
	ZeroRunAt  int `json:"zero_run_at,omitempty"`
	ZeroRunLen int `json:"zero_run_len,omitempty"`
	// Touch: every packet a call returns is changed through a public adder
	// before the next call (a bridge tagging what it forwards): the next
	// result is still a matter of its own frame.
	Touch bool `json:"touch,omitempty"`
	// ReusedReader (bufio kinds): the same *bufio.Reader object was used
	// before for another connection whose read timed out inside a packet
	// body, and was then Reset to this stream (a pooled reader).
	ReusedReader bool `json:"reused_reader,omitempty"`
}

// openStreamTimeout is how long a ReadPacket may take on a stream that holds
// the complete frame but stays open. In-memory decoding takes microseconds;
// the limit only separates "returns" from "waits for bytes beyond the frame"
// and is confirmed by a second attempt before it counts.
const openStreamTimeout = 5 * time.Second

func checkC06(c caseC06) (sig, msg string) {
	guard.SetCurrent(func() []byte {
		return mustJSON(vf.Failure{Property: "C06", Kind: "hang", Case: mustJSON(c), Signature: "hang", Message: "a library call made for this case did not return"})
	})
	defer guard.SetCurrent(nil)
	var stream []byte
	for _, f := range c.Frames {
		stream = append(stream, f...)
	}
	stream = append(stream, c.Trailing...)
	runPrelude(c.Prelude)
	sr := &guard.ScriptReader{Data: stream}
	if c.Bytewise {
		sr.Steps = make([]guard.Step, len(stream))
		for i := range sr.Steps {
			sr.Steps[i].N = 1
		}
	}
	if c.ZeroRunLen > 0 && !c.Bytewise && c.ZeroRunAt < len(stream) {
		sr.Steps = nil
		if c.ZeroRunAt > 0 {
			sr.Steps = append(sr.Steps, guard.Step{N: c.ZeroRunAt})
		}
		for i := 0; i < c.ZeroRunLen; i++ {
			sr.Steps = append(sr.Steps, guard.Step{N: 0})
		}
		sr.Steps = append(sr.Steps, guard.Step{N: len(stream) - c.ZeroRunAt})
	}
	if c.EOFWithLast && len(stream) > 0 {
		if len(sr.Steps) == 0 {
			sr.Steps = []guard.Step{{N: len(stream)}}
		}
		sr.Steps[len(sr.Steps)-1].Err = "EOF"
	}
	if c.Open {
		sr.Block, sr.Release = true, make(chan struct{})
		defer close(sr.Release)
	}
	rd, consumed := wrappedStream(c.Reader, sr)
	if c.ReusedReader && (c.Reader == "bufio16" || c.Reader == "bufio4096") && len(c.Frames) > 0 && len(c.Frames[0]) > 4 {
		size := 16
		if c.Reader == "bufio4096" {
			size = 4096
		}
		doomed := c.Frames[0][:len(c.Frames[0])-1]
		terr := &timeoutError{id: len(doomed)}
		br := bufio.NewReaderSize(&guard.ScriptReader{Data: doomed, Injected: terr, After: terr}, size)
		_ = readFrom(br, len(doomed), func() interface{} {
			return vf.Failure{Property: "C06", Kind: "hang", Case: mustJSON(c), Signature: "hang"}
		})
		br.Reset(sr)
		rd, consumed = br, func() int { return sr.Consumed() - br.Buffered() }
	}
	// each frame read on its own, before the stream is touched: what the
	// bytes of that frame alone decode to
	alones := make([]readResult, len(c.Frames))
	for i, f := range c.Frames {
		total, _, err := ref.FrameLen(f)
		if err != nil || total != len(f) {
			return "harness", fmt.Sprintf("harness: frame %d is not a complete frame: %s", i, hx(f))
		}
		alones[i] = contiguous(f)
	}
	want := 0
	gots := make([]readResult, 0, len(c.Frames))
	defer func() {
		// a second look at every packet the calls returned, after the whole
		// stream was read: what a call returned is settled by its own frame
		if sig != "" {
			return
		}
		for i, g := range gots {
			if g.Err != nil && g.Panic == nil {
				// an error value is a result too: it still says what it said
				now := ""
				guard.Call(func() { now = g.Err.Error() })
				if now != g.ErrText {
					sig, msg = "earlier-error-changed", fmt.Sprintf("the error returned by call %d (frame %s) changed while later frames of the stream were read:\n at return: %s\n now:       %s", i, hx(c.Frames[i]), g.ErrText, now)
					return
				}
			}
			if !g.OK || g.P == nil {
				continue
			}
			var now model.Packet
			if pan := guard.Call(func() { now = api.Observe(g.P) }); pan != nil {
				sig, msg = "panic", fmt.Sprintf("accessors of the packet returned by call %d panicked after the rest of the stream was read: %v", i, pan.Value)
				return
			}
			if d := model.Diff(now, g.Obs); d != "" {
				sig, msg = "earlier-result-changed", fmt.Sprintf("the packet returned by call %d (frame %s) changed while later frames of the stream were read: %s", i, hx(c.Frames[i]), d)
				return
			}
		}
	}()
	for i, f := range c.Frames {
		total := len(f)
		alone := alones[i]
		var got readResult
		if c.Open {
			done := make(chan readResult, 1)
			go func() {
				done <- readFrom(rd, len(f), func() interface{} {
					return vf.Failure{Property: "C06", Kind: "hang", Case: mustJSON(c), Signature: "hang"}
				})
			}()
			select {
			case got = <-done:
			case <-time.After(openStreamTimeout):
				return "waits-beyond-frame", fmt.Sprintf("call %d: frame %s has arrived completely on a stream that stays open (%s reader), but ReadPacket does not return: it waits for bytes beyond the frame", i, hx(f), c.Reader)
			}
		} else {
			got = readFrom(rd, len(f), func() interface{} {
				return vf.Failure{Property: "C06", Kind: "hang", Case: mustJSON(c), Signature: "hang"}
			})
		}
		want += total
		gots = append(gots, got)
		if got.Panic != nil {
			return "panic", fmt.Sprintf("call %d panicked: %v", i, got.Panic.Value)
		}
		if consumed() != want {
			return "consumed", fmt.Sprintf("after call %d (frame %s, accepted=%v) %d bytes were taken from the stream (%s reader), the frames so far are %d bytes long", i, hx(f), got.OK, consumed(), c.Reader, want)
		}
		if d := sameResult(alone, got); d != "" {
			return "result-depends-on-neighbours", fmt.Sprintf("call %d on frame %s differs from reading that frame alone: %s", i, hx(f), d)
		}
		if c.Touch && got.OK && got.P != nil {
			// change the returned packet through a public adder; the snapshot
			// kept for the second look follows
			snap := got.Obs.Clone()
			guard.Call(func() {
				if api.AppendOne(got.P, &snap, fmt.Sprintf("touched-%d", i), i) != "" {
					gots[len(gots)-1].Obs = api.Observe(got.P)
				}
			})
		}
	}
	if len(c.Trailing) == 0 && !c.Open {
		got := readFrom(rd, 16, func() interface{} {
			return vf.Failure{Property: "C06", Kind: "hang", Case: mustJSON(c), Signature: "hang"}
		})
		if got.OK || got.Err == nil || !errors.Is(got.Err, io.EOF) {
			return "no-eof-after-last-frame", fmt.Sprintf("after the last frame ReadPacket returned ok=%v err=%v, want an error that is io.EOF", got.OK, got.Err)
		}
	}
	return "", ""
}

func TestC06(t *testing.T) {
	curProp = "C06"
	r := vf.NewRec("C06")
	defer r.Finish(t)
	guard.StartWatchdog(*vf.Out, vf.Label("C06"))

	for _, rf := range r.LoadReplays(t) {
		var c caseC06
		if err := json.Unmarshal(rf.Case, &c); err != nil {
			t.Fatalf("replay %s: %v", rf.Source, err)
		}
		_, msg := checkC06(c)
		r.Case(vf.FPs("replay", fmt.Sprint(c)), true, "replay", func() interface{} { return c })
		if msg != "" {
			r.FailReplay(rf, "%s", msg)
		}
	}
	if vf.ReplayOnly() {
		return
	}

	r.Rapid(t, "sequences", vf.N(15000, 1000000), func(t *rapid.T) {
		n := rapid.IntRange(1, 8).Draw(t, "nframes")
		var c caseC06
		kinds := make([]string, n)
		for i := 0; i < n; i++ {
			f, k := genCompleteFrame(t, rapid.IntRange(0, 3).Draw(t, "small") > 0)
			if rapid.IntRange(0, 9).Draw(t, "aliasframe") == 0 {
				// PUBLISH frames that refer to one of a few topic aliases, with
				// or without a topic name: what a frame decodes to is a matter
				// of its bytes, not of the frames that defined the alias before
				m := model.New(model.PUBLISH)
				m.TopicAlias = uint16(rapid.IntRange(1, 3).Draw(t, "alias"))
				if rapid.Bool().Draw(t, "aliasdefines") {
					m.TopicName = gen.Topic(t, "aliastopic", gen.Opts{Small: true}, true)
				}
				m.Payload = []byte("x")
				m.Normalize()
				f, k = ref.Canonical(&m), "valid-ref"
			}
			c.Frames = append(c.Frames, f)
			kinds[i] = k
		}
		if rapid.Bool().Draw(t, "trailing") {
			c.Trailing = rapid.SliceOfN(rapid.Byte(), 1, 12).Draw(t, "trailingbytes")
		}
		c.Bytewise = rapid.IntRange(0, 3).Draw(t, "bytewise") == 0
		c.Reader = rapid.SampledFrom(wrapKinds).Draw(t, "reader")
		c.EOFWithLast = rapid.IntRange(0, 3).Draw(t, "eofwithlast") == 0
		if rapid.IntRange(0, 5).Draw(t, "open") == 0 && (c.Reader == "script" || c.Reader == "bufio16" || c.Reader == "bufio4096") {
			c.Open, c.EOFWithLast, c.Trailing = true, false, nil
		}
		c.Prelude = drawPrelude(t)
		c.Touch = rapid.IntRange(0, 2).Draw(t, "touch") == 0
		c.ReusedReader = !c.Open && (c.Reader == "bufio16" || c.Reader == "bufio4096") && rapid.IntRange(0, 2).Draw(t, "reusedreader") == 0
		if !c.Bytewise && !c.Open && (c.Reader == "script" || c.Reader == "chunklen") && rapid.IntRange(0, 5).Draw(t, "zerorun") == 0 {
			total := 0
			for _, f := range c.Frames {
				total += len(f)
			}
			if total > 1 {
				c.ZeroRunAt = rapid.IntRange(0, total-1).Draw(t, "zerorunat")
				c.ZeroRunLen = rapid.SampledFrom([]int{3, 50, 99, 100, 101, 150, 1000}).Draw(t, "zerorunlen")
				c.EOFWithLast = false
			}
		}
		for _, k := range kinds {
			if k == "valid-large" {
				c.Bytewise = false // millions of one-byte reads add time, not coverage
			}
		}
		sig, msg := checkC06(c)
		if sig == "waits-beyond-frame" {
			if sig2, _ := checkC06(c); sig2 != "waits-beyond-frame" {
				sig, msg = "", "" // did not repeat: not a verdict
				r.Note("a read on an open stream exceeded %v once and did not repeat", openStreamTimeout)
			}
		}
		nt := false
		class := fmt.Sprintf("frames=%d", n)
		for i := 0; i < n-1; i++ {
			if kinds[i] == "zero-length" || kinds[i] == "content-malformed" {
				nt = n >= 2
			}
		}
		if nt {
			class += "/rejected-or-empty-inside"
		}
		if len(c.Trailing) > 0 {
			class += "/trailing"
		}
		class += "/" + c.Reader
		if c.Open {
			class += "/open-stream"
		}
		if c.EOFWithLast {
			class += "/eof-with-last-bytes"
		}
		if c.ZeroRunLen > 0 {
			class += "/long-zero-run"
		}
		if c.ReusedReader {
			class += "/reader-reused-after-timeout"
		}
		var stream []byte
		for _, f := range c.Frames {
			stream = append(stream, f...)
		}
		r.Case(vf.FPs(string(stream), string(c.Trailing), fmt.Sprint(c.Bytewise, c.EOFWithLast, c.Open, len(c.Prelude), c.ZeroRunAt, c.ZeroRunLen, c.Touch, c.ReusedReader), c.Reader), nt, class, func() interface{} {
			s := caseC06{Trailing: c.Trailing, Bytewise: c.Bytewise, Reader: c.Reader, EOFWithLast: c.EOFWithLast, Open: c.Open, ZeroRunAt: c.ZeroRunAt, ZeroRunLen: c.ZeroRunLen, Touch: c.Touch, ReusedReader: c.ReusedReader}
			for _, f := range c.Frames {
				if len(f) > 48 {
					f = f[:48]
				}
				s.Frames = append(s.Frames, f)
			}
			return s
		})
		if msg != "" {
			r.Fail("sequence", c, sig, "%s", msg)
			t.Fatalf("%s", msg)
		}
	})
}
