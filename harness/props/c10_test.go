package props

import (
	"bufio"
	"bytes"
	"encoding/json"
	"fmt"
	"io"
	"net"
	"os"
	"strings"
	"syscall"
	"testing"

	"github.com/gregoryv/mq"
	"pgregory.net/rapid"

	"verif/harness/api"
	"verif/harness/gen"
	"verif/harness/guard"
	"verif/harness/model"
	"verif/harness/ref"
	"verif/harness/vf"
)

// C10 — WriteTo emits one complete frame and reports its size truthfully.

type caseC10 struct {
	ModelGob string     `json:"model_gob,omitempty"`
	Model    string     `json:"model"`
	Plan     []api.Step `json:"plan,omitempty"`
	DecoyGob string     `json:"decoy_gob,omitempty"`
	Prelude  []preOp    `json:"prelude,omitempty"`
	Zero     int        `json:"zero_value_of_type,omitempty"` // 1..16: &T{} of type n-1 instead of a built packet
	Accept   int        `json:"accept"`                       // -1: writer accepts everything; k: accepts k bytes then fails
	ErrKind  string     `json:"writer_error,omitempty"`       // "" fresh value | closedpipe | netclosed | epipe | connreset | operror | deadline | shortwrite
	Undef    Hex        `json:"undefined_frame,omitempty"`    // the packet is the Undefined that ReadPacket returns for this type-0 frame
	// Iface: optional io interfaces the recording writer also has:
	// "" none | bytewriter | stringwriter | readerfrom | all
	Iface string `json:"writer_interfaces,omitempty"`
}

// stringSize extracts N from the "N bytes" part of String(): the model-known
// suffix (reason name / reason string / ", malformed! ...") is stripped first.
func stringSizeOK(p mq.ControlPacket, s string, n int64) (bool, string) {
	rest := s
	if wf, ok := p.(mq.HasWellFormed); ok {
		var bad bool
		guard.Call(func() { bad = wf.WellFormed() != nil })
		if bad {
			if i := strings.LastIndex(rest, ", malformed! "); i >= 0 {
				rest = rest[:i]
			}
		}
	}
	// a reason (name, then the reason string) may follow the size; whether
	// it does for a given code is not part of this property
	if hr, ok := p.(mq.HasReason); ok {
		suffix := " " + hr.ReasonCode().String() + "!"
		if rs, ok := p.(interface{ ReasonString() string }); ok && rs.ReasonString() != "" {
			if strings.HasSuffix(rest, suffix+" "+rs.ReasonString()) {
				rest = strings.TrimSuffix(rest, suffix+" "+rs.ReasonString())
			}
		}
		if strings.HasSuffix(rest, suffix) {
			rest = strings.TrimSuffix(rest, suffix)
		}
	}
	want := fmt.Sprintf(" %d bytes", n)
	return strings.HasSuffix(rest, want), want
}

func buildC10(c caseC10) (mq.ControlPacket, model.Packet, error) {
	if len(c.Undef) > 0 {
		p, err, _ := read(c.Undef)
		if err != nil || p == nil {
			return nil, model.Packet{}, fmt.Errorf("type-0 frame %s not decoded: %v", hx(c.Undef), err)
		}
		return p, model.Packet{}, nil
	}
	if c.Zero > 0 {
		return api.NewZero(c.Zero - 1), model.Packet{Type: uint8(c.Zero - 1)}, nil
	}
	return buildCase{ModelGob: c.ModelGob, Plan: c.Plan, DecoyGob: c.DecoyGob, Prelude: c.Prelude}.build()
}

func checkC10(c caseC10) (frame []byte, sig, msg string) {
	guard.SetCurrent(func() []byte {
		return mustJSON(vf.Failure{Property: "C10", Kind: "hang", Case: mustJSON(c), Signature: "hang", Message: "a library call made for this case did not return"})
	})
	defer guard.SetCurrent(nil)
	var p mq.ControlPacket
	var err error
	var builtModel model.Packet
	if pan := guard.Call(func() { p, builtModel, err = buildC10(c) }); pan != nil {
		return nil, "build-panic", fmt.Sprintf("building panicked: %v", pan.Value)
	}
	if err != nil {
		return nil, "harness", "harness: " + err.Error()
	}
	var injected error = &guard.InjectedError{ID: c.Accept}
	switch c.ErrKind {
	case "closedpipe":
		injected = io.ErrClosedPipe
	case "netclosed":
		injected = net.ErrClosed
	case "epipe":
		injected = syscall.EPIPE
	case "connreset":
		injected = syscall.ECONNRESET
	case "operror":
		injected = &net.OpError{Op: "write", Net: "tcp", Err: net.ErrClosed}
	case "deadline":
		injected = os.ErrDeadlineExceeded
	case "shortwrite":
		injected = io.ErrShortWrite
	}
	w := &guard.ScriptWriter{Accept: c.Accept, Err: injected}
	var dst io.Writer = w
	switch c.Iface {
	case "bytewriter":
		dst = guard.ByteScriptWriter{ScriptWriter: w}
	case "stringwriter":
		dst = guard.StringScriptWriter{ScriptWriter: w}
	case "readerfrom":
		dst = guard.ReaderFromScriptWriter{ScriptWriter: w}
	case "all":
		dst = guard.AllScriptWriter{ScriptWriter: w}
	}
	var n int64
	var werr error
	if pan := guard.Call(func() { n, werr = p.WriteTo(dst) }); pan != nil {
		return nil, "write-panic:" + panicSite(pan), fmt.Sprintf("WriteTo panicked: %v\n%s", pan.Value, pan.Stack)
	}
	if _, undefined := p.(*mq.Undefined); undefined {
		if werr == nil || n != 0 || w.Calls != 0 || len(w.Got) != 0 {
			return nil, "undefined-written", fmt.Sprintf("Undefined.WriteTo returned n=%d err=%v and the writer saw %d calls / %d bytes", n, werr, w.Calls, len(w.Got))
		}
		return nil, "", ""
	}
	// the full frame, from a writer that accepts everything
	full, fn, ferr, pan := write(p)
	if pan != nil || ferr != nil {
		return nil, "write-error", fmt.Sprintf("WriteTo to an accepting writer failed: %v %v", ferr, pan)
	}
	total, _, err := ref.FrameLen(full)
	if err != nil || total != len(full) {
		return full, "not-one-frame", fmt.Sprintf("the writer received %d bytes that are not exactly one frame (framing says %d, %v): %s", len(full), total, err, hx(full))
	}
	if fn != int64(len(full)) {
		return full, "count", fmt.Sprintf("WriteTo returned n=%d but the writer received %d bytes", fn, len(full))
	}
	if c.ModelGob != "" && builtModel.Type >= 1 && builtModel.Type <= 15 && builtModel.WellFormedMQTT() && c12Encodable(&builtModel) {
		// "one frame and nothing else": what was written for a well-formed
		// packet is a frame the library itself reads back (no padding, no
		// leftover bytes inside the declared length)
		if q, rerr, rpan := read(full); rpan != nil || rerr != nil || q == nil {
			return full, "own-frame-unreadable", fmt.Sprintf("the frame written for a well-formed %s is not read back by ReadPacket: %v %v\nframe %s", typeName(builtModel.Type), rerr, rpan, hx(full))
		}
	}
	var s string
	if pan := guard.Call(func() { s = p.String() }); pan != nil {
		return full, "string-panic", fmt.Sprintf("String() panicked: %v", pan.Value)
	}
	if ok, want := stringSizeOK(p, s, fn); !ok {
		return full, "string-size", fmt.Sprintf("String() = %q does not report %q (frame %s)", s, want, hx(full))
	}
	if c.Accept < 0 {
		if werr != nil || n != int64(len(full)) || string(w.Got) != string(full) || (w.Calls != 1 && c.Iface == "") {
			return full, "write-result", fmt.Sprintf("WriteTo returned n=%d err=%v, writer saw %d calls and %d bytes, frame is %d bytes", n, werr, w.Calls, len(w.Got), len(full))
		}
		// the same through other concrete writer types (code that
		// type-asserts its writer takes other paths for them)
		for _, kind := range []string{"bytes.Buffer", "bufio.Writer", "plain", "bytes.Buffer holding earlier bytes", "bufio.Writer holding earlier bytes", "strings.Builder"} {
			var sink bytes.Buffer
			var wr io.Writer = &sink
			var bw *bufio.Writer
			var sb *strings.Builder
			earlier := ""
			switch kind {
			case "bufio.Writer":
				bw = bufio.NewWriterSize(&sink, 32)
				wr = bw
			case "plain":
				wr = struct{ io.Writer }{&sink}
			case "bytes.Buffer holding earlier bytes":
				// several packets batched in one buffer
				earlier = "\xc0\x00earlier"
				sink.WriteString(earlier)
			case "bufio.Writer holding earlier bytes":
				earlier = "\xd0\x00"
				bw = bufio.NewWriterSize(&sink, 32)
				_, _ = bw.WriteString(earlier)
				wr = bw
			case "strings.Builder":
				sb = &strings.Builder{}
				wr = sb
			}
			var n2 int64
			var e2 error
			if pan := guard.Call(func() { n2, e2 = p.WriteTo(wr) }); pan != nil {
				return full, "write-panic:" + kind, fmt.Sprintf("WriteTo(%s) panicked: %v", kind, pan.Value)
			}
			if bw != nil {
				_ = bw.Flush()
			}
			if sb != nil {
				sink.WriteString(sb.String())
			}
			if earlier != "" && bytes.HasPrefix(sink.Bytes(), []byte(earlier)) {
				rest := append([]byte(nil), sink.Bytes()[len(earlier):]...)
				sink.Reset()
				sink.Write(rest)
			}
			if e2 != nil || n2 != int64(len(full)) || !bytes.Equal(sink.Bytes(), full) {
				return full, "writer-kind:" + kind, fmt.Sprintf("WriteTo to a %s returned n=%d err=%v and delivered %s; to the recording writer it delivered %s", kind, n2, e2, hx(sink.Bytes()), hx(full))
			}
		}
		return full, "", ""
	}
	// faulting writer
	k := c.Accept
	if k >= len(full) {
		// writer accepted everything after all
		if werr != nil || n != int64(len(full)) {
			return full, "write-result", fmt.Sprintf("writer accepted all %d bytes but WriteTo returned n=%d err=%v", len(full), n, werr)
		}
		return full, "", ""
	}
	if werr != injected {
		return full, "writer-error-lost", fmt.Sprintf("writer accepted %d of %d bytes and reported %v; WriteTo returned err=%v", k, len(full), injected, werr)
	}
	if n != int64(k) {
		return full, "writer-count", fmt.Sprintf("writer accepted %d of %d bytes; WriteTo returned n=%d", k, len(full), n)
	}
	if string(w.Got) != string(full[:k]) {
		return full, "writer-bytes", fmt.Sprintf("writer was offered other bytes than the frame prefix")
	}
	return full, "", ""
}

func TestC10(t *testing.T) {
	curProp = "C10"
	r := vf.NewRec("C10")
	defer r.Finish(t)
	guard.StartWatchdog(*vf.Out, vf.Label("C10"))

	for _, rf := range r.LoadReplays(t) {
		var c caseC10
		if err := json.Unmarshal(rf.Case, &c); err != nil {
			t.Fatalf("replay %s: %v", rf.Source, err)
		}
		_, _, msg := checkC10(c)
		r.Case(vf.FPs("replay", c.ModelGob, fmt.Sprint(c.Plan, c.Zero, c.Accept)), true, "replay", func() interface{} { return c.Model })
		if msg != "" {
			r.FailReplay(rf, "%s", msg)
		}
	}
	if vf.ReplayOnly() {
		return
	}

	// zero values and constructor values of all 16 types, with every writer
	if *vf.Shard == 0 {
		for typ := 0; typ <= 15; typ++ {
			for _, accept := range []int{-1, 0, 1, 2} {
				c := caseC10{Zero: typ + 1, Model: "&" + typeName(uint8(typ)) + "{}", Accept: accept, Iface: []string{"", "bytewriter", "stringwriter", "readerfrom", "all"}[(typ+accept+5)%5]}
				_, sig, msg := checkC10(c)
				r.Case(vf.FPs("zero", fmt.Sprint(typ, accept)), true, "zero-value", func() interface{} { return c })
				if msg != "" {
					r.Fail("write", c, sig, "%s", msg)
				}
			}
		}
	}

	// an Undefined that carries data (decoded from a type-0 frame) cannot be written either
	if *vf.Shard == 0 {
		for nib := 0; nib < 16; nib++ {
			for _, body := range [][]byte{{1}, {1, 2, 3}, {0xca, 0xfe, 0, 0, 0, 0, 0, 0, 0, 9}} {
				for _, accept := range []int{-1, 0, 1} {
					c := caseC10{Undef: ref.Reframe(byte(nib), body), Model: "Undefined decoded from a type-0 frame", Accept: accept}
					_, sig, msg := checkC10(c)
					r.Case(vf.FPs("undef", fmt.Sprint(nib, len(body), accept)), true, "undefined-decoded", func() interface{} { return c })
					if msg != "" {
						r.Fail("write", c, sig, "%s", msg)
					}
				}
			}
		}
	}

	r.Rapid(t, "packets", vf.N(12000, 900000), func(t *rapid.T) {
		typ := gen.Type(t)
		var m model.Packet
		malformed := rapid.IntRange(0, 3).Draw(t, "malformed") == 0
		if malformed {
			m = gen.Packet(t, typ, gen.Opts{})
		} else {
			m = genC01(t, typ)
		}
		if !malformed && rapid.IntRange(0, 5).Draw(t, "emptykey") == 0 && len(api.WildFor(0)) == 0 {
			// a user property with an empty key (the library does not write
			// such a pair): the frame is still exactly one frame
			switch typ {
			case model.PINGREQ, model.PINGRESP:
			default:
				at := rapid.IntRange(0, len(m.UserProps)).Draw(t, "emptykeyat")
				kv := model.KV{K: "", V: rapid.SampledFrom([]string{"keep-alive", "", "v"}).Draw(t, "emptykeyv")}
				m.UserProps = append(m.UserProps[:at:at], append([]model.KV{kv}, m.UserProps[at:]...)...)
			}
		}
		bc := drawBuildCase(t, &m, typ)
		base := caseC10{ModelGob: bc.ModelGob, Model: bc.Model, Plan: bc.Plan, DecoyGob: bc.DecoyGob, Prelude: bc.Prelude, Accept: -1}
		ifaces := []string{"", "", "bytewriter", "stringwriter", "readerfrom", "all"}
		base.Iface = rapid.SampledFrom(ifaces).Draw(t, "writeriface")
		frame, sig, msg := checkC10(base)
		class := typeName(typ) + "/" + sizeClass(frame)
		if malformed {
			class += "/malformed-constructible"
		}
		nt := sizeClass(frame) != "rl1" || optionalCount(&m) > 0
		r.Case(vf.FPs(string(frame), "ok"), nt, class+"/accepting-writer", func() interface{} {
			return map[string]interface{}{"model": m.String(), "frame": hx(frame), "writer": "accepts all"}
		})
		if msg != "" {
			r.Fail("write", base, sig, "%s\nmodel: %s", msg, m.String())
			t.Fatalf("%s", msg)
		}
		// faulting writers: every k for short frames, sampled otherwise
		var ks []int
		if len(frame) <= 256 {
			for k := 0; k < len(frame); k++ {
				ks = append(ks, k)
			}
		} else {
			ks = []int{0, 1, 2, len(frame) - 1, rapid.IntRange(0, len(frame)-1).Draw(t, "k")}
		}
		errKinds := []string{"", "", "", "closedpipe", "netclosed", "epipe", "connreset", "operror", "deadline", "shortwrite"}
		for ki, k := range ks {
			c := base
			c.Accept = k
			c.ErrKind = errKinds[(ki+len(frame))%len(errKinds)]
			c.Iface = ifaces[(ki*7+len(frame))%len(ifaces)]
			_, sig, msg := checkC10(c)
			r.Case(vf.FPs(string(frame), fmt.Sprint(k)), true, class+"/faulting-writer", func() interface{} {
				return map[string]interface{}{"model": m.String(), "frame": hx(frame), "writer": fmt.Sprintf("accepts %d bytes then fails", k)}
			})
			if msg != "" {
				r.Fail("write", c, sig, "%s\nmodel: %s", msg, m.String())
				t.Fatalf("%s", msg)
			}
		}
	})
}
