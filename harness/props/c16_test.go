package props

import (
	"bytes"
	"encoding/json"
	"fmt"
	"testing"

	"github.com/gregoryv/mq"
	"pgregory.net/rapid"

	"verif/harness/api"
	"verif/harness/gen"
	"verif/harness/guard"
	"verif/harness/model"
	"verif/harness/ref"
	"verif/harness/vf"
)

// C16 — packet type dispatch follows the first byte and header flags are
// preserved. All 256 first bytes x bodies valid for the selected type.

type caseC16 struct {
	Frame Hex `json:"frame"`
	// Loose: the body comes from the unconstrained generator (empty filters,
	// odd option bytes, ...): the decoder may reject it, but if a packet is
	// returned the dispatch and first-byte clauses apply to it all the same.
	Loose bool `json:"loose,omitempty"`
}

// mandated reports whether the first byte has the flag bits the
// specification mandates for its type (all PUBLISH combinations with QoS != 3).
func mandatedFirstByte(b byte) bool {
	typ, fl := b>>4, b&15
	switch typ {
	case 0:
		return false
	case model.PUBLISH:
		return (fl>>1)&3 != 3
	case model.PUBREL, model.SUBSCRIBE, model.UNSUBSCRIBE:
		return fl == 2
	}
	return fl == 0
}

// keptUndefined holds Undefined packets returned earlier in this test with
// the bodies they must still carry.
var keptUndefined []struct {
	p    *mq.Undefined
	body []byte
}

func checkKeptUndefined() (sig, msg string) {
	for _, k := range keptUndefined {
		if !bytes.Equal(k.p.Data(), k.body) {
			return "undefined-data-changed-later", fmt.Sprintf("an Undefined returned earlier carried %s, after reading other packets its Data() is %s", hx(k.body), hx(k.p.Data()))
		}
	}
	return "", ""
}

func checkC16(frame []byte, loose ...bool) (sig, msg string) {
	l := len(loose) > 0 && loose[0]
	sig, msg = checkC16via(frame, false, l)
	if msg == "" {
		// the same frame from a reader that stalls: a (0, nil) read before the
		// first byte and between header and body
		sig, msg = checkC16via(frame, true, l)
	}
	if msg == "" {
		sig, msg = checkKeptUndefined()
	}
	return
}

func checkC16via(frame []byte, stalling, loose bool) (sig, msg string) {
	b := frame[0]
	typ := int(b >> 4)
	q, err, pan := read(frame)
	if stalling {
		sr := &guard.ScriptReader{Data: frame, Steps: []guard.Step{{N: 0}, {N: 1}, {N: 0}, {N: 1}, {N: 0}}}
		pan = guard.Call(func() { q, err = mq.ReadPacket(sr) })
	}
	if pan != nil {
		return "panic", fmt.Sprintf("ReadPacket panicked on %s: %v", hx(frame), pan.Value)
	}
	if err != nil {
		if typ != 0 && mandatedFirstByte(b) && !loose {
			return "rejected", fmt.Sprintf("first byte %02x has the mandated flags and the body is valid for %s, but ReadPacket rejects %s: %v", b, typeName(uint8(typ)), hx(frame), err)
		}
		if typ == 0 {
			return "rejected-type0", fmt.Sprintf("first byte %02x (type 0) must yield Undefined, got error %v", b, err)
		}
		return "", "" // a spec-invalid first byte may be rejected
	}
	if got := api.TypeOf(q); got != typ {
		return fmt.Sprintf("dispatch:%d->%d", typ, got), fmt.Sprintf("first byte %02x selects type %d (%s) but ReadPacket returned %T", b, typ, typeName(uint8(typ)), q)
	}
	_, hdr, _ := ref.FrameLen(frame)
	body := frame[hdr:]
	switch p := q.(type) {
	case *mq.Undefined:
		if !bytes.Equal(p.Data(), body) {
			return "undefined-data", fmt.Sprintf("Undefined.Data() = %s, frame body = %s", hx(p.Data()), hx(body))
		}
		if len(keptUndefined) < 64 {
			keptUndefined = append(keptUndefined, struct {
				p    *mq.Undefined
				body []byte
			}{p, append([]byte(nil), body...)})
		}
		return "", ""
	case *mq.Publish:
		if p.Duplicate() != (b&8 != 0) || p.Retain() != (b&1 != 0) || p.QoS() != (b>>1)&3 {
			return "publish-flags", fmt.Sprintf("first byte %02x: Duplicate=%v QoS=%d Retain=%v", b, p.Duplicate(), p.QoS(), p.Retain())
		}
	}
	out, _, werr, pan := write(q)
	if pan != nil || werr != nil {
		return "rewrite", fmt.Sprintf("re-encoding the packet read from %s failed: %v %v", hx(frame), werr, pan)
	}
	if len(out) == 0 || out[0] != b {
		return "first-byte-lost", fmt.Sprintf("read first byte %02x, re-encoded first byte %02x (frame %s)", b, out[0], hx(frame))
	}
	return "", ""
}

func defaultNibble(typ uint8) byte {
	m := model.New(typ)
	return m.FirstByte() & 15
}

func TestC16(t *testing.T) {
	curProp = "C16"
	keptUndefined = nil
	r := vf.NewRec("C16")
	defer r.Finish(t)
	guard.StartWatchdog(*vf.Out, vf.Label("C16"))

	for _, rf := range r.LoadReplays(t) {
		var c caseC16
		if err := json.Unmarshal(rf.Case, &c); err != nil {
			t.Fatalf("replay %s: %v", rf.Source, err)
		}
		_, msg := checkC16(c.Frame, c.Loose)
		r.Case(vf.FP(c.Frame), true, "replay", func() interface{} { return c })
		if msg != "" {
			r.FailReplay(rf, "%s", msg)
		}
	}
	if vf.ReplayOnly() {
		return
	}

	tryLoose := func(frame []byte, loose bool) (string, string) {
		sig, msg := checkC16(frame, loose)
		b := frame[0]
		nt := b&15 != defaultNibble(b>>4)
		class := typeName(b>>4) + "/default-flags"
		if nt {
			class = typeName(b>>4) + "/other-flags"
		}
		if loose {
			class += "/loose-body"
		}
		r.Case(vf.FP(frame), nt, class, func() interface{} { return caseC16{Frame: frame, Loose: loose} })
		return sig, msg
	}
	try := func(frame []byte) (string, string) { return tryLoose(frame, false) }

	// remaining length 0 for all 256 first bytes
	if *vf.Shard == 0 {
		for b := 0; b < 256; b++ {
			f := []byte{byte(b), 0}
			typ := uint8(b >> 4)
			// types whose body may legally be empty: PINGREQ, PINGRESP, DISCONNECT, AUTH (and type 0)
			if typ == 0 || typ == model.PINGREQ || typ == model.PINGRESP || typ == model.DISCONNECT || typ == model.AUTH {
				if sig, msg := try(f); msg != "" {
					r.Fail("dispatch", caseC16{Frame: f}, sig, "%s", msg)
				}
			}
		}
	}

	perType := vf.N(60, 80000)
	for typ := uint8(0); typ <= 15; typ++ {
		typ := typ
		r.Rapid(t, typeName(typ), perType, func(t *rapid.T) {
			var body []byte
			var m model.Packet
			if typ == 0 {
				body = rapid.SliceOfN(rapid.Byte(), 0, 40).Draw(t, "body")
				if rapid.IntRange(0, 3).Draw(t, "bigbody") == 0 {
					n := rapid.SampledFrom([]int{127, 128, 1023, 1024, 1025, 4096, 4097, 16384, 65535, 65536, 70000}).Draw(t, "bodylen")
					body = bytes.Repeat(append([]byte{0x5a}, body...), n/(len(body)+1)+1)[:n]
				}
			} else {
				m = genSpecValid(t, typ)
			}
			loose := typ != 0 && rapid.IntRange(0, 3).Draw(t, "loosebody") == 0
			if loose {
				o := gen.Opts{AllowEmptyUserKey: true, NoHuge: true}
				if typ == model.CONNECT {
					o.WellFormed = true
				}
				m = gen.Packet(t, typ, o)
			}
			for nib := 0; nib < 16; nib++ {
				b := typ<<4 | byte(nib)
				var frame []byte
				if typ == 0 {
					frame = ref.Reframe(b, body)
				} else {
					mm := m.Clone()
					if typ == model.PUBLISH {
						// body consistent with the QoS bits of this first byte
						mm.Dup, mm.QoS, mm.Retain = nib&8 != 0, uint8(nib>>1)&3, nib&1 != 0
						if mm.QoS == 1 || mm.QoS == 2 {
							if mm.PacketID == 0 {
								mm.PacketID = 1
							}
						} else {
							mm.PacketID = 0
						}
						if mm.QoS == 3 {
							mm.QoS = 0 // body without packet identifier; the first byte keeps both bits
						}
					}
					st := drawStyle(t)
					f, _ := ref.Encode(&mm, st.style())
					frame = append([]byte(nil), f...)
					frame[0] = b
				}
				if sig, msg := tryLoose(frame, loose); msg != "" {
					r.Fail("dispatch", caseC16{Frame: frame, Loose: loose}, sig, "%s", msg)
					t.Fatalf("%s", msg)
				}
			}
		})
	}
	r.Exhaustive("all 256 first bytes, each with generated bodies valid for the selected type (and remaining length 0 where the type allows)")
}
