package props

import (
	"bufio"
	"bytes"
	"encoding/binary"
	"encoding/json"
	"errors"
	"fmt"
	"time"

	"github.com/gregoryv/mq"
	"pgregory.net/rapid"

	"verif/harness/api"
	"verif/harness/gen"
	"verif/harness/guard"
	"verif/harness/model"
	"verif/harness/ref"
	"verif/harness/vf"
)

// curProp is the property whose test is running; the watchdog attributes a
// hang to it.
var curProp = "C04"

func inflightRender(c caseFrame) func() []byte {
	return func() []byte {
		b, _ := json.Marshal(vf.Failure{Property: curProp, Kind: "hang", Case: mustJSON(c), Signature: "hang", Message: "in flight when the watchdog fired"})
		return b
	}
}

// decodeVia runs one decode entry point on a frame under guard + watchdog.
// entry: "ReadPacket", "ReadPacket1" (one byte per Read) or "Unmarshal:<n>"
// (UnmarshalBinary of a value of packet type n on the frame's body;
// "UnmarshalNew:<n>" uses the constructor's value instead of the zero value).
func decodeVia(entry string, frame []byte) (p mq.ControlPacket, err error, pan *guard.Panic) {
	c := caseFrame{Frame: frame, Entry: entry}
	size := len(frame)
	if total, _, e := ref.FrameLen(frame); e == nil && total > size {
		size = total
	}
	pan = guard.Watched(size, inflightRender(c), func() {
		switch {
		case entry == "ReadPacket":
			rd, _ := readerFor(frame)
			p, err = mq.ReadPacket(rd)
		case entry == "ReadPacketOpen":
			// the complete frame on a stream that stays open (bufio around a
			// reader that blocks once the data is out)
			sr := &guard.ScriptReader{Data: frame, Block: true, Release: make(chan struct{})}
			done := make(chan struct{})
			go func() {
				defer close(done)
				defer func() { _ = recover() }()
				p, err = mq.ReadPacket(bufio.NewReaderSize(sr, 64))
			}()
			select {
			case <-done:
				close(sr.Release)
			case <-time.After(openStreamTimeout):
				close(sr.Release)
				<-done
				p, err = nil, errWaitsBeyondFrame
			}
		case entry == "ReadPacket1":
			steps := make([]guard.Step, len(frame))
			for i := range steps {
				steps[i].N = 1
			}
			p, err = mq.ReadPacket(&guard.ScriptReader{Data: frame, Steps: steps})
		default:
			var n int
			var mk func(int) mq.ControlPacket
			if _, e := fmt.Sscanf(entry, "Unmarshal:%d", &n); e == nil {
				mk = api.NewZero
			} else if _, e := fmt.Sscanf(entry, "UnmarshalNew:%d", &n); e == nil {
				mk = api.NewPacket
			} else if _, e := fmt.Sscanf(entry, "UnmarshalUsed:%d", &n); e == nil {
				// a value that already holds a decoded packet of its type
				mk = func(n int) mq.ControlPacket {
					v := api.NewPacket(n)
					for _, s := range fuzzSeeds() {
						if int(s[0]>>4) == n {
							if _, _, b, ok := ref.Split(s); ok {
								_ = v.UnmarshalBinary(append([]byte(nil), b...))
							}
							break
						}
					}
					return v
				}
			} else {
				panic("unknown entry " + entry)
			}
			body := frame
			if _, hdr, b, ok := ref.Split(frame); ok {
				_ = hdr
				body = b
			}
			v := mk(n)
			err = v.UnmarshalBinary(append([]byte(nil), body...))
			if err == nil {
				p = v
			}
		}
	})
	return
}

// byteMutate applies 1..3 byte-level mutations.
func byteMutate(t *rapid.T, in []byte) []byte {
	b := append([]byte(nil), in...)
	n := rapid.IntRange(1, 3).Draw(t, "mut.n")
	for i := 0; i < n; i++ {
		if len(b) == 0 {
			b = append(b, rapid.Byte().Draw(t, "mut.byte"))
			continue
		}
		pos := rapid.IntRange(0, len(b)-1).Draw(t, "mut.pos")
		switch rapid.IntRange(0, 7).Draw(t, "mut.kind") {
		case 0: // set to an interesting constant
			b[pos] = rapid.SampledFrom([]byte{0x00, 0x01, 0x02, 0x7f, 0x80, 0x81, 0xfe, 0xff, 0x0b, 0x26, 0x1f}).Draw(t, "mut.const")
		case 1: // random byte
			b[pos] = rapid.Byte().Draw(t, "mut.byte")
		case 2: // bit flip
			b[pos] ^= 1 << uint(rapid.IntRange(0, 7).Draw(t, "mut.bit"))
		case 3: // delete a byte
			b = append(b[:pos], b[pos+1:]...)
		case 4: // insert a byte
			v := rapid.Byte().Draw(t, "mut.byte")
			b = append(b[:pos], append([]byte{v}, b[pos:]...)...)
		case 5: // truncate
			b = b[:pos]
		case 6: // duplicate a chunk
			end := pos + rapid.IntRange(1, 8).Draw(t, "mut.chunk")
			if end > len(b) {
				end = len(b)
			}
			chunk := append([]byte(nil), b[pos:end]...)
			b = append(b[:end], append(chunk, b[end:]...)...)
		case 7: // increment / decrement
			if rapid.Bool().Draw(t, "mut.inc") {
				b[pos]++
			} else {
				b[pos]--
			}
		}
	}
	return b
}

// genValidFrame draws a valid frame from the reference encoder (any type,
// any style) and returns it with its model and field map.
func genValidFrame(t *rapid.T, small bool) (model.Packet, []byte, []ref.Span, *ref.Frame) {
	typ := gen.Type(t)
	o := gen.Opts{WellFormed: true, SpecValid: true, AllowEmptyUserKey: true, NoHuge: true, Small: small}
	m := gen.Packet(t, typ, o)
	if typ == model.DISCONNECT {
		gen.DisconnectProps(t, &m, o)
	}
	st := drawStyle(t)
	tree := ref.Tree(&m, st.style())
	frame, spans := tree.Bytes()
	return m, frame, spans, tree
}

// setLenField rewrites one length-carrying field to a new value.
func setLenField(frame []byte, lf ref.LenField, v uint32) []byte {
	switch lf.Kind {
	case ref.KStr, ref.KBin:
		var p [2]byte
		binary.BigEndian.PutUint16(p[:], uint16(v))
		return ref.ReplaceBytes(frame, lf.Start, lf.End, p[:])
	default:
		return ref.ReplaceBytes(frame, lf.Start, lf.End, ref.VBI(v&0x0fffffff))
	}
}

func lenFieldValue(frame []byte, lf ref.LenField) uint32 {
	switch lf.Kind {
	case ref.KStr, ref.KBin:
		return uint32(binary.BigEndian.Uint16(frame[lf.Start:]))
	default:
		v, _, _ := ref.DecodeVBI(frame[lf.Start:lf.End])
		return v
	}
}

// genHostileFrame draws a byte string from one of the generators named in
// the C04 quantifier. kind is returned for the class histogram.
func genHostileFrame(t *rapid.T) (frame []byte, kind string) {
	switch k := rapid.IntRange(0, 99).Draw(t, "hostile.kind"); {
	case k < 15: // (i) arbitrary bytes, first byte and length steered
		first := rapid.Byte().Draw(t, "first")
		n := rapid.IntRange(0, 40).Draw(t, "bodylen")
		body := rapid.SliceOfN(rapid.Byte(), n, n).Draw(t, "body")
		switch rapid.IntRange(0, 5).Draw(t, "rlmode") {
		case 0:
			rl := rapid.SliceOfN(rapid.Byte(), 1, 5).Draw(t, "rawrl")
			return append(append([]byte{first}, rl...), body...), "arbitrary/raw-remlen"
		case 1:
			// declared length larger than what follows
			extra := rapid.IntRange(1, 300).Draw(t, "extra")
			out := append([]byte{first}, ref.VBI(uint32(n+extra))...)
			return append(out, body...), "arbitrary/short-body"
		case 2:
			// declared length at a power of two or next to one (size classes,
			// buffer thresholds, the 1/2/3/4-byte forms), little or nothing behind it
			out := append([]byte{first}, ref.VBI(rapid.SampledFrom(remLenBoundaries).Draw(t, "rlboundary"))...)
			return append(out, body...), "arbitrary/boundary-remlen"
		default:
			return ref.Reframe(first, body), "arbitrary/consistent"
		}
	case k < 30: // (ii) prefix of a valid frame
		_, f, _, _ := genValidFrame(t, false)
		cut := rapid.IntRange(0, len(f)).Draw(t, "cut")
		if rapid.Bool().Draw(t, "patch") {
			if first, hdr, body, ok := ref.Split(f); ok && cut >= hdr {
				return ref.Reframe(first, body[:cut-hdr]), "prefix/patched-remlen"
			}
		}
		return f[:cut], "prefix/stale-remlen"
	case k < 55: // (iii) one length field raised or lowered
		_, f, spans, _ := genValidFrame(t, false)
		lfs := ref.LengthFields(spans)
		lf := lfs[rapid.IntRange(0, len(lfs)-1).Draw(t, "lenfield")]
		old := lenFieldValue(f, lf)
		var nv uint32
		switch rapid.IntRange(0, 5).Draw(t, "lenmode") {
		case 0:
			nv = old + 1
		case 1:
			if old > 0 {
				nv = old - 1
			}
		case 2:
			nv = old + uint32(rapid.IntRange(2, 70000).Draw(t, "lendelta"))
		case 3:
			nv = uint32(rapid.IntRange(0, int(old)).Draw(t, "lenless"))
		case 4:
			nv = rapid.SampledFrom([]uint32{0, 1, 127, 128, 255, 16383, 16384, 65532, 65533, 65534, 65535, 2097151, 268435455}).Draw(t, "lenconst")
			if lf.Kind == ref.KRemLen && rapid.Bool().Draw(t, "lenpow2") {
				nv = rapid.SampledFrom(remLenBoundaries).Draw(t, "rlboundary")
			}
		default:
			nv = rapid.Uint32().Draw(t, "lenany")
		}
		g := setLenField(f, lf, nv)
		if lf.Kind != ref.KRemLen && rapid.Bool().Draw(t, "fixrl") {
			if first, _, body, ok := ref.Split(g); ok {
				return ref.Reframe(first, body), "lenfield/" + lf.Kind.String() + "/patched-remlen"
			}
		}
		return g, "lenfield/" + lf.Kind.String()
	case k < 58: // a CONNECT announcing another protocol name / version
		m := genC01(t, model.CONNECT)
		m.ProtocolName = rapid.SampledFrom([]string{"mqtt", "MQIs", "MQTX", "M", "Mq", "MQTTX", "MQIsdp", ""}).Draw(t, "protoname")
		m.ProtocolVersion = rapid.SampledFrom([]uint8{4, 5, 3, 6}).Draw(t, "protover")
		return ref.Canonical(&m), "connect-other-protocol"
	case k < 63: // a property that MQTT defines, planted in a packet where it is not allowed
		return genMisplacedProperty(t), "misplaced-property"
	case k < 67: // a property repeated within one section (second occurrence empty, shorter or longer)
		m, _, _, tree := genValidFrame(t, false)
		secs := tree.PropSections()
		if len(secs) == 0 {
			tree = ref.Tree(&m, ref.Style{Form: 2})
			secs = tree.PropSections()
		}
		if len(secs) == 0 {
			f, _ := tree.Bytes()
			return f, "valid"
		}
		si := rapid.IntRange(0, len(secs)-1).Draw(t, "section")
		sec := secs[si]
		scope := int(m.Type)
		if sec.Name == "willprops" {
			scope = 16
		}
		ids := ref.AllowedProps(scope)
		id := ids[rapid.IntRange(0, len(ids)-1).Draw(t, "repid")]
		firstLen := rapid.SampledFrom([]int{0, 1, 3, 6, 12, 40}).Draw(t, "firstlen")
		secondLen := rapid.SampledFrom([]int{0, 0, 0, 1, 2, 50}).Draw(t, "secondlen")
		first := ref.MakePropValue(id, bytes.Repeat([]byte{'r'}, firstLen), 7)
		second := ref.MakePropValue(id, bytes.Repeat([]byte{'s'}, secondLen), 0)
		// drop existing occurrences of id, then plant the pair; the second
		// one is often the last property of the section
		var kids []*ref.Node
		for _, k := range sec.Kids {
			if k.PropID != id {
				kids = append(kids, k)
			}
		}
		p1 := rapid.IntRange(0, len(kids)).Draw(t, "firstpos")
		kids = append(append(append([]*ref.Node{}, kids[:p1]...), first), kids[p1:]...)
		p2 := len(kids)
		if rapid.IntRange(0, 2).Draw(t, "secondlast") == 0 {
			p2 = rapid.IntRange(p1+1, len(kids)).Draw(t, "secondpos")
		}
		kids = append(append(append([]*ref.Node{}, kids[:p2]...), second), kids[p2:]...)
		sec.Kids = kids
		f, _ := tree.Bytes()
		return f, "repeated-property"
	case k < 70: // (iv) every type nibble on a body valid for another type
		_, f, _, _ := genValidFrame(t, false)
		g := append([]byte(nil), f...)
		g[0] = rapid.Byte().Draw(t, "nibble")
		return g, "foreign-body"
	default: // byte-level mutation of a valid frame, re-framed so the body is parsed
		_, f, _, _ := genValidFrame(t, false)
		first, _, body, _ := ref.Split(f)
		mb := byteMutate(t, body)
		if rapid.IntRange(0, 9).Draw(t, "mutfirst") == 0 {
			first = rapid.Byte().Draw(t, "first")
		}
		return ref.Reframe(first, mb), "bytemut"
	}
}

// errWaitsBeyondFrame marks a ReadPacket that did not return although the
// complete frame had been delivered on a stream that stays open.
var errWaitsBeyondFrame = errors.New("ReadPacket waits for bytes beyond the frame")

// sentinels are packets decoded once, at the start of a test, one per type;
// nothing that happens later may change them (pooled decode state, shared
// scratch). check reports the first difference.
type sentinels struct {
	frames [][]byte
	pkts   []mq.ControlPacket
	snaps  []model.Packet
}

func newSentinels() *sentinels {
	s := &sentinels{}
	for _, f := range fuzzSeeds() {
		if len(f) < 2 || f[0]>>4 == 0 {
			continue
		}
		p, err, pan := decodeVia("ReadPacket", f)
		if pan != nil || err != nil || p == nil {
			continue
		}
		s.frames = append(s.frames, f)
		s.pkts = append(s.pkts, p)
		s.snaps = append(s.snaps, api.Observe(p))
	}
	return s
}

func (s *sentinels) check() string {
	for i, p := range s.pkts {
		if d := model.Diff(api.Observe(p), s.snaps[i]); d != "" {
			return fmt.Sprintf("a %s decoded earlier (from %s) changed while other frames were decoded: %s", typeName(s.snaps[i].Type), hx(s.frames[i]), d)
		}
	}
	return ""
}

// recentPackets keeps the last few packets a test decoded; nothing decoded
// later may change them.
type recentPackets struct {
	entries []string
	frames  [][]byte
	pkts    []mq.ControlPacket
	snaps   []model.Packet
}

func (rp *recentPackets) add(frame []byte, entry string, p mq.ControlPacket) {
	if p == nil || len(frame) > 4096 {
		return
	}
	const keep = 8
	if len(rp.pkts) == keep {
		rp.frames, rp.pkts, rp.snaps, rp.entries = rp.frames[1:], rp.pkts[1:], rp.snaps[1:], rp.entries[1:]
	}
	rp.entries = append(rp.entries, entry)
	rp.frames = append(rp.frames, append([]byte(nil), frame...))
	rp.pkts = append(rp.pkts, p)
	rp.snaps = append(rp.snaps, api.Observe(p))
}

func (rp *recentPackets) check() string {
	for i, p := range rp.pkts {
		if d := model.Diff(api.Observe(p), rp.snaps[i]); d != "" {
			return fmt.Sprintf("a %s returned earlier (from %s) changed: %s", typeName(rp.snaps[i].Type), hx(rp.frames[i]), d)
		}
	}
	return ""
}

func (rp *recentPackets) history() []preOp {
	out := make([]preOp, len(rp.frames))
	for i, f := range rp.frames {
		out[i] = preOp{Frame: f, Entry: rp.entries[i]}
	}
	return out
}

// replayHistory decodes the history frames and returns the kept packets.
func replayHistory(h []preOp) *recentPackets {
	rp := &recentPackets{}
	for _, o := range h {
		p, err, pan := decodeVia(o.Entry, o.Frame)
		if pan == nil && err == nil {
			rp.add(o.Frame, o.Entry, p)
		}
	}
	return rp
}

// genMisplacedProperty draws a valid frame and plants 1..3 properties that
// MQTT defines but does not allow in that packet (weighted to the
// Subscription Identifier, which decoders route through a callback).
func genMisplacedProperty(t *rapid.T) []byte {
	m, _, _, tree := genValidFrame(t, false)
	secs := tree.PropSections()
	if len(secs) == 0 {
		// short form without property section: use the full form
		tree = ref.Tree(&m, ref.Style{Form: 2})
		secs = tree.PropSections()
	}
	if len(secs) == 0 {
		f, _ := tree.Bytes()
		return f
	}
	sec := secs[rapid.IntRange(0, len(secs)-1).Draw(t, "section")]
	n := rapid.IntRange(1, 3).Draw(t, "nplanted")
	for i := 0; i < n; i++ {
		id := rapid.SampledFrom(ref.DefinedPropIDs()).Draw(t, "plantid")
		if rapid.IntRange(0, 2).Draw(t, "plantsubid") == 0 {
			id = 0x0b
		}
		node := ref.MakeProp(id, rapid.Uint32().Draw(t, "plantseed"))
		pos := rapid.IntRange(0, len(sec.Kids)).Draw(t, "plantpos")
		sec.Kids = append(append(append([]*ref.Node{}, sec.Kids[:pos]...), node), sec.Kids[pos:]...)
	}
	f, _ := tree.Bytes()
	return f
}

// remLenBoundaries: every power of two up to 2^28 and its two neighbours
// (inside the variable byte integer range); powers of two twice.
var remLenBoundaries = func() []uint32 {
	var out []uint32
	for k := uint(0); k <= 28; k++ {
		v := uint32(1) << k
		for _, x := range []uint32{v - 1, v, v, v + 1} {
			if x <= 268435455 {
				out = append(out, x)
			}
		}
	}
	return out
}()

// rlTargetsPow2: remaining lengths of complete frames at powers of two from
// 64 bytes to 1 MiB and next to them.
var rlTargetsPow2 = func() []int {
	var out []int
	for k := uint(6); k <= 20; k++ {
		v := 1 << k
		out = append(out, v-1, v, v, v, v+1)
	}
	return out
}()
