package props

import (
	"bytes"
	"encoding/json"
	"fmt"
	"strings"
	"testing"

	"github.com/gregoryv/mq"
	"pgregory.net/rapid"

	"verif/harness/api"
	"verif/harness/gen"
	"verif/harness/guard"
	"verif/harness/model"
	"verif/harness/ref"
	"verif/harness/vf"
)

// C12 — setters and accessors obey last-write-wins and keep derived flags in
// step. State machine: every public setter/adder is an action; the reference
// model is a plain record of fields; compared after every step.

type stepC12 struct {
	Setter   string `json:"setter"`
	Index    int    `json:"index"`
	Probe    int    `json:"probe,omitempty"`             // read-only operation run after the call (see api.Probe)
	Reuse    bool   `json:"reuse_will_object,omitempty"` // SetWill: change the previously attached *Publish and attach the same object again
	AfterGob string `json:"model_after_gob"`
	After    string `json:"model_after"`
}

type caseC12 struct {
	Type  uint8     `json:"type"`
	Steps []stepC12 `json:"steps"`
	// StartGob: instead of a fresh packet the sequence starts from the packet
	// decoded from the reference encoding of this model (a client modifies a
	// packet it received and sends it on).
	StartGob   string    `json:"start_model_gob,omitempty"`
	StartStyle styleJSON `json:"start_style,omitempty"`
}

// mutateField draws a new value for the field a setter writes (scalar:
// overwrite; adder: append one element). Zero / empty / false values are
// drawn often so that resets are exercised.
func mutateField(t *rapid.T, m *model.Packet, name string) {
	o := gen.Opts{WellFormed: true, NoHuge: true}
	zero := rapid.IntRange(0, 3).Draw(t, "zero") == 0
	str := func() string {
		if zero {
			return ""
		}
		return gen.Str(t, "v", o)
	}
	bin := func() []byte {
		if zero {
			m.XEmptyNonNil = rapid.Bool().Draw(t, "emptynonnil")
			return nil
		}
		return gen.Bytes(t, "v", o)
	}
	u16 := func() uint16 {
		if zero {
			return 0
		}
		return gen.U16(t, "v")
	}
	u32 := func() uint32 {
		if zero {
			return 0
		}
		return gen.U32(t, "v")
	}
	bl := func() bool { return rapid.Bool().Draw(t, "v") }
	switch name {
	case "SetProtocolName":
		m.ProtocolName = rapid.SampledFrom([]string{"MQTT", "MQTT", "MQIsdp", "", "mqtt"}).Draw(t, "v")
	case "SetProtocolVersion":
		m.ProtocolVersion = rapid.SampledFrom([]uint8{5, 5, 4, 0, 255}).Draw(t, "v")
	case "SetCleanStart":
		m.CleanStart = bl()
	case "SetKeepAlive":
		m.KeepAlive = u16()
	case "SetClientID":
		m.ClientID = str()
	case "SetUsername":
		m.Username = str()
		m.HasUsername = m.Username != ""
	case "SetPassword":
		m.Password = bin()
		m.HasPassword = len(m.Password) > 0
	case "SetWill":
		m.Will = gen.Will(t, gen.Opts{WellFormed: true, NoHuge: true, Small: rapid.Bool().Draw(t, "smallwill")})
	case "SetWillDelayInterval":
		m.WillDelay = u32()
	case "SetSessionExpiryInterval":
		m.SessionExpiry = u32()
	case "SetReceiveMax":
		m.ReceiveMax = u16()
	case "SetMaxPacketSize":
		m.MaxPacketSize = u32()
	case "SetTopicAliasMax":
		m.TopicAliasMax = u16()
	case "SetRequestResponseInfo":
		m.RequestResponseInfo = bl()
	case "SetRequestProblemInfo":
		m.RequestProblemInfo = bl()
	case "SetAuthMethod":
		m.AuthMethod = str()
		if !zero && rapid.IntRange(0, 3).Draw(t, "authdict") == 0 {
			m.AuthMethod = rapid.SampledFrom(authMethodNames).Draw(t, "authmethodname")
		}
	case "SetAuthData":
		m.AuthData = bin()
		if !zero && rapid.IntRange(0, 3).Draw(t, "authdatadict") == 0 {
			// shapes of real authentication exchanges (SCRAM messages with and
			// without the GS2 header, bare separators, a JWT-like token)
			m.AuthData = []byte(rapid.SampledFrom([]string{"n,,n=user,r=fyko+d2lbbFgONRv9qkxdawL", "r=fyko,s=QSXCR+Q6sek8bf92,i=4096", "c=biws,r=fyko,p=v0X8v3Bz2T0CJGbJQyF0X+HI4Ts=", "v=rmF9pqV8S7suAoZWja4dJRkFsKQ=", "n,,", ",", "=", "a=b,c", "\x00user\x00pass", "eyJhbGciOiJIUzI1NiJ9.e30.x", "user:pass"}).Draw(t, "authdatashape"))
		}
	case "SetSessionPresent":
		m.SessionPresent = bl()
	case "SetReasonCode":
		if zero {
			m.ReasonCode = 0
		} else {
			m.ReasonCode = gen.ReasonCode(t, "v")
		}
	case "SetReasonString":
		m.ReasonString = str()
		if !zero && rapid.IntRange(0, 4).Draw(t, "reasonfromcode") == 0 {
			// a reason string that repeats, extends or paraphrases the name of
			// the packet's own reason code, as servers like to send it
			m.ReasonString = reasonLike(t, m.ReasonCode)
		}
	case "SetMaxQoS":
		m.MaxQoS = rapid.SampledFrom([]uint8{0, 1, 2}).Draw(t, "v")
	case "SetRetainAvailable":
		m.RetainAvailable = bl()
	case "SetAssignedClientID":
		m.AssignedClientID = str()
	case "SetWildcardSubAvailable":
		m.WildcardSubAvail = bl()
	case "SetSubIdentifiersAvailable":
		m.SubIDsAvail = bl()
	case "SetSharedSubAvailable":
		m.SharedSubAvail = bl()
	case "SetServerKeepAlive":
		m.ServerKeepAlive = u16()
	case "SetResponseInformation":
		m.ResponseInformation = str()
	case "SetServerReference":
		m.ServerReference = str()
	case "SetDuplicate":
		m.Dup = bl()
	case "SetQoS":
		m.QoS = uint8(rapid.IntRange(0, 2).Draw(t, "v"))
	case "SetRetain":
		m.Retain = bl()
	case "SetTopicName":
		m.TopicName = str()
		if !zero {
			m.TopicName = gen.Topic(t, "v", o, false)
		}
	case "SetPacketID":
		m.PacketID = u16()
	case "SetPayloadFormat":
		m.PayloadFormat = bl()
	case "SetMessageExpiryInterval":
		m.MessageExpiry = u32()
	case "SetTopicAlias":
		m.TopicAlias = u16()
	case "SetResponseTopic":
		m.ResponseTopic = str()
	case "SetCorrelationData":
		m.CorrelationData = bin()
	case "SetContentType":
		m.ContentType = str()
		if !zero && rapid.IntRange(0, 3).Draw(t, "ctdict") == 0 {
			// registered media types: code may look at the payload for some
			m.ContentType = rapid.SampledFrom([]string{"application/json", "APPLICATION/JSON", "application/json; charset=utf-8", "application/vnd.api+json", "application/cbor", "application/xml", "text/plain", "text/plain; charset=utf-8", "application/octet-stream", "application/x-protobuf", "image/png", "text/csv"}).Draw(t, "ctname")
		}
	case "SetPayload":
		m.Payload = bin()
		if !zero && rapid.IntRange(0, 5).Draw(t, "payloadshape") == 0 {
			// payloads with a shape: documents, whitespace only, a lone brace
			m.Payload = []byte(rapid.SampledFrom([]string{"\n", " ", " \t\r\n", "{}", "[1,2]", "{", "\"x\"", "null", "<a/>", "\xef\xbb\xbf{}", "a,b\n1,2\n", "\x00"}).Draw(t, "payloadshapev"))
		}
		if ct := strings.ToLower(m.ContentType); !zero && (strings.Contains(ct, "json") || strings.Contains(ct, "xml") || strings.Contains(ct, "csv")) && rapid.Bool().Draw(t, "payloadforct") {
			// a typed payload that is blank or broken
			m.Payload = []byte(rapid.SampledFrom([]string{"\n", " ", "\t \n", "{", "", "\xff"}).Draw(t, "payloadforctv"))
		}
		if rapid.IntRange(0, 59).Draw(t, "hugepayload") == 0 {
			// the remaining length moves into its 3- and 4-byte forms
			m.Payload = bytes.Repeat([]byte{0x5a}, rapid.SampledFrom([]int{16384, 2097151, 2097152, 2097160}).Draw(t, "hugepayloadlen"))
		}
	case "AddSubscriptionID":
		m.SubIDs = append(m.SubIDs, gen.SubID(t, "v"))
	case "SetSubscriptionID":
		m.SubID = int(gen.SubID(t, "v"))
		if zero {
			m.SubID = 0 // "setting a value back to zero": the accessor then reports 0, not "never set"
		}
	case "AddFilters":
		m.Filters = append(m.Filters, model.Filter{Filter: gen.Topic(t, "v", o, false), Opts: rapid.Uint8().Draw(t, "opts")})
	case "AddFilter":
		m.UnsubFilters = append(m.UnsubFilters, gen.Topic(t, "v", o, false))
	case "AddReasonCode":
		m.ReasonCodes = append(m.ReasonCodes, gen.ReasonCode(t, "v"))
	case "AddUserProp":
		m.UserProps = append(m.UserProps, model.KV{K: gen.NonEmptyStr(t, "k", o), V: gen.Str(t, "v", o)})
	default:
		panic("no generator for setter " + name)
	}
	m.Normalize()
}

func listLenOf(m *model.Packet, name string) int {
	switch name {
	case "AddSubscriptionID":
		return len(m.SubIDs)
	case "AddFilters":
		return len(m.Filters)
	case "AddFilter":
		return len(m.UnsubFilters)
	case "AddReasonCode":
		return len(m.ReasonCodes)
	case "AddUserProp":
		return len(m.UserProps)
	}
	return 0
}

// checkC12 replays a call sequence against a fresh packet and compares the
// accessors with the model after every step.
func checkC12(c caseC12) (sig, msg string) {
	guard.SetCurrent(func() []byte {
		return mustJSON(vf.Failure{Property: "C12", Kind: "hang", Case: mustJSON(c), Signature: "hang", Message: "a library call made for this case did not return"})
	})
	defer guard.SetCurrent(nil)
	ss := api.Setters(c.Type)
	byName := map[string]api.Setter{}
	for _, s := range ss {
		byName[s.Name] = s
	}
	var p mq.ControlPacket
	if pan := guard.Call(func() { p = api.NewPacket(int(c.Type)) }); pan != nil {
		return "panic", fmt.Sprintf("constructor panicked: %v", pan.Value)
	}
	var last model.Packet = model.New(c.Type)
	last.Normalize()
	var lastWill *mq.Publish
	if c.StartGob != "" {
		sm, err := unpackModel(c.StartGob)
		if err != nil {
			return "harness", "harness: " + err.Error()
		}
		f, _ := ref.Encode(&sm, c.StartStyle.style())
		q, err, pan := read(f)
		if pan != nil || err != nil || q == nil || api.TypeOf(q) != int(c.Type) {
			return "", "" // acceptance of valid frames is C03's business
		}
		sm.Normalize()
		if model.Diff(api.Observe(q), sm) != "" {
			return "", "" // so is decoding to the right values
		}
		p, last = q, sm
	} else if d := model.Diff(api.Observe(p), last); d != "" {
		// a fresh packet must already agree with the empty model
		return "fresh:" + fieldOf(d), fmt.Sprintf("fresh %s differs from the empty model (got vs model): %s", typeName(c.Type), d)
	}
	// a second packet of the same type that is handed the very same slices
	// as arguments of the binary setters (a retry built from the same
	// credential, a copy of a message): what is set on p later is p's business
	bystander := api.NewPacket(int(c.Type))
	byWant := map[string][]byte{}
	byDelay := false
	bytesSetters := map[string]string{"SetPassword": "Password", "SetAuthData": "AuthData", "SetCorrelationData": "CorrelationData", "SetPayload": "Payload"}
	for i, st := range c.Steps {
		s, ok := byName[st.Setter]
		if !ok {
			return "harness", "harness: unknown setter " + st.Setter
		}
		m, err := unpackModel(st.AfterGob)
		if err != nil {
			return "harness", "harness: " + err.Error()
		}
		apply := func() { s.Apply(p, &m, st.Index) }
		if cp, ok := p.(*mq.Connect); ok && st.Setter == "SetWill" && m.Will != nil {
			apply = func() {
				if st.Reuse && lastWill != nil {
					api.ApplyWill(lastWill, m.Will)
				} else {
					lastWill = api.BuildWill(m.Will)
				}
				cp.SetWill(lastWill)
				// the same will message is also given to the second CONNECT,
				// which has a will delay of its own
				if bc, ok := bystander.(*mq.Connect); ok {
					bc.SetWill(lastWill)
					bc.SetWillDelayInterval(77)
					byDelay = true
				}
			}
		}
		if pan := guard.Call(apply); pan != nil {
			return "panic:" + st.Setter, fmt.Sprintf("step %d %s panicked: %v\n%s", i, st.Setter, pan.Value, pan.Stack)
		}
		if field, ok := bytesSetters[st.Setter]; ok && c.StartGob == "" {
			if arg := api.LastBin; len(arg) > 0 && len(arg) <= 4096 {
				guard.Call(func() { api.SetBytesField(bystander, field, arg) })
				byWant[field] = append([]byte(nil), arg...)
			}
		}
		if byDelay {
			var d uint32
			guard.Call(func() { d = bystander.(*mq.Connect).WillDelayInterval() })
			if d != 77 {
				return "bystander:WillDelayInterval", fmt.Sprintf("a second CONNECT was given the same will message and a will delay interval of 77 of its own; after step %d (%s on p) its WillDelayInterval() is %d", i, st.Setter, d)
			}
		}
		for field, wantB := range byWant {
			var gotB []byte
			guard.Call(func() { gotB, _ = api.GetBytesField(bystander, field) })
			if !bytes.Equal(gotB, wantB) {
				return "bystander:" + field, fmt.Sprintf("a second %s was given the same slice as p for %s earlier; after step %d (%s on p) the second packet's %s() is %s, it was set to %s", typeName(c.Type), field, i, st.Setter, field, hx(gotB), hx(wantB))
			}
		}
		if st.Probe > 0 {
			if pan := guard.Call(func() { api.Probe(p, st.Probe) }); pan != nil {
				return "panic:probe", fmt.Sprintf("read-only operation %d after step %d %s panicked: %v", st.Probe, i, st.Setter, pan.Value)
			}
		}
		var got model.Packet
		if pan := guard.Call(func() { got = api.Observe(p) }); pan != nil {
			return "panic:accessor", fmt.Sprintf("accessors panicked after step %d %s: %v", i, st.Setter, pan.Value)
		}
		if d := model.Diff(got, m); d != "" {
			return "setter:" + st.Setter + ":" + fieldOf(d), fmt.Sprintf("after step %d %s the accessors differ from the model (got vs model): %s\nmodel: %s", i, st.Setter, d, m.String())
		}
		last = m
		// every prefix of a sequence is a sequence: the frame written now
		// reflects the state reached so far (checked after the last step and
		// after three steps out of four before it)
		if i == len(c.Steps)-1 || i%4 != 3 {
			if sig, msg := frameReflects(p, last, i); msg != "" {
				return sig, msg
			}
		}
	}
	if len(c.Steps) == 0 {
		return frameReflects(p, last, -1)
	}
	return "", ""
}

// frameReflects: the encoded frame reflects the state the setters produced.
func frameReflects(p mq.ControlPacket, last model.Packet, step int) (sig, msg string) {
	if last.WellFormedMQTT() && c12Encodable(&last) {
		frame, _, err, pan := write(p)
		if pan != nil || err != nil {
			return "write", fmt.Sprintf("WriteTo after step %d failed: %v %v", step, err, pan)
		}
		got, err := ref.DecodeStrict(frame)
		if err != nil {
			return "final-frame-invalid", fmt.Sprintf("the frame written after step %d is not valid: %v\nframe %s\nmodel: %s", step, err, hx(frame), last.String())
		}
		want := expectAfterWire(last)
		if want.Will == nil {
			want.WillDelay = 0 // a will delay without a will is not transmitted
		}
		if want.SubID == 0 && got.SubID == -1 {
			got.SubID = 0 // an absent property counts as the zero value
		}
		if d := model.Diff(got, want); d != "" {
			return "final-frame:" + fieldOf(d), fmt.Sprintf("the frame written after step %d does not reflect the state reached (frame vs model): %s\nframe %s", step, d, hx(frame))
		}
	}
	return "", ""
}

// c12Encodable: states whose frame the strict decoder can judge (valid
// subscription options, no zero subscription identifier on the wire).
func c12Encodable(m *model.Packet) bool {
	for _, f := range m.Filters {
		if f.Opts&0xc0 != 0 || f.Opts&3 == 3 || (f.Opts>>4)&3 == 3 || f.Filter == "" {
			return false
		}
	}
	return true
}

func TestC12(t *testing.T) {
	curProp = "C12"
	r := vf.NewRec("C12")
	defer r.Finish(t)
	guard.StartWatchdog(*vf.Out, vf.Label("C12"))

	for _, rf := range r.LoadReplays(t) {
		var c caseC12
		if err := json.Unmarshal(rf.Case, &c); err != nil {
			t.Fatalf("replay %s: %v", rf.Source, err)
		}
		_, msg := checkC12(c)
		r.Case(vf.FPs("replay", string(rf.Case)), true, "replay", func() interface{} { return c.Steps[len(c.Steps)-1].After })
		if msg != "" {
			r.FailReplay(rf, "%s", msg)
		}
	}
	if vf.ReplayOnly() {
		return
	}

	perType := vf.N(960, 100000)
	for typ := uint8(1); typ <= 15; typ++ {
		typ := typ
		ss := api.Setters(typ)
		if len(ss) == 0 {
			// PINGREQ / PINGRESP have no setters: the fresh-packet check only
			_, msg := checkC12(caseC12{Type: typ})
			r.Case(vf.FPs("fresh", typeName(typ)), false, typeName(typ), nil)
			if msg != "" {
				r.Fail("sequence", caseC12{Type: typ}, "fresh", "%s", msg)
			}
			continue
		}
		r.Rapid(t, typeName(typ), perType, func(t *rapid.T) {
			n := rapid.IntRange(1, 40).Draw(t, "steps")
			m := model.New(typ)
			m.Normalize()
			c := caseC12{Type: typ}
			if rapid.IntRange(0, 3).Draw(t, "from-decoded") == 0 {
				o := gen.Opts{WellFormed: true, SpecValid: true, NoHuge: true}
				m = gen.Packet(t, typ, o)
				if typ == model.DISCONNECT {
					gen.DisconnectProps(t, &m, o)
				}
				m.Normalize()
				c.StartGob, c.StartStyle = packModel(m), drawStyle(t)
				n = rapid.IntRange(1, 6).Draw(t, "steps-after-decode")
			}
			calls := map[string]int{}
			nt := false
			prev := map[string]string{}
			burst, burstOf := 0, 0
			for i := 0; i < n; i++ {
				si := rapid.IntRange(0, len(ss)-1).Draw(t, "setter")
				if burst > 0 {
					// the same setter several times in a row with fresh values:
					// long, short, medium ... (what a buffer kept from an earlier
					// value can and cannot hold)
					si = burstOf
					burst--
				} else if rapid.IntRange(0, 7).Draw(t, "burst") == 0 {
					burst, burstOf = rapid.IntRange(2, 4).Draw(t, "burstlen"), si
					if typ == model.CONNECT && rapid.IntRange(0, 1).Draw(t, "burstwill") == 0 {
						// the will is a packet of its own with several buffers
						for k, cand := range ss {
							if cand.Name == "SetWill" {
								si, burstOf = k, k
							}
						}
					}
				}
				s := ss[si]
				before := packModel(m)
				mutateField(t, &m, s.Name)
				idx := 0
				if s.IsList {
					idx = listLenOf(&m, s.Name) - 1
				}
				after := packModel(m)
				probe := 0
				if rapid.IntRange(0, 5).Draw(t, "probe") == 0 {
					probe = rapid.IntRange(1, 4).Draw(t, "probekind")
				}
				reuse := s.Name == "SetWill" && rapid.IntRange(0, 2).Draw(t, "reusewill") == 0
				c.Steps = append(c.Steps, stepC12{Setter: s.Name, Index: idx, Probe: probe, Reuse: reuse, AfterGob: after, After: m.String()})
				calls[s.Name]++
				if !s.IsList && calls[s.Name] >= 2 && before != after {
					nt = true // set twice with different values (includes resets to zero)
				}
				prev[s.Name] = after
			}
			sig, msg := checkC12(c)
			r.Case(vf.FPs(fmt.Sprint(typ), fmt.Sprint(c.Steps)), nt, typeName(typ), func() interface{} {
				names := make([]string, len(c.Steps))
				for i, s := range c.Steps {
					names[i] = s.Setter
				}
				return map[string]interface{}{"type": typeName(typ), "calls": names, "final_model": m.String()}
			})
			if msg != "" {
				r.Fail("sequence", c, sig, "%s", msg)
				t.Fatalf("%s", msg)
			}
		})
	}
}

// reasonLike draws a reason string related to the name of a reason code.
func reasonLike(t *rapid.T, code uint8) string {
	name := mq.ReasonCode(code).String()
	if rapid.IntRange(0, 3).Draw(t, "othercode") == 0 {
		name = mq.ReasonCode(gen.ReasonCode(t, "othercodev")).String()
	}
	spaced := make([]byte, 0, len(name)+8)
	for i := 0; i < len(name); i++ {
		if i > 0 && name[i] >= 'A' && name[i] <= 'Z' {
			spaced = append(spaced, ' ')
		}
		spaced = append(spaced, name[i])
	}
	switch rapid.IntRange(0, 7).Draw(t, "reasonshape") {
	case 0:
		return name
	case 1:
		return name + ": client certificate expired"
	case 2:
		return string(spaced) + ", try again in 30s"
	case 3:
		return strings.ToLower(string(spaced)) + "!"
	case 4:
		return strings.ToUpper(name) + "_" + name
	case 5:
		if len(name) > 1 {
			return name[:len(name)-1]
		}
		return name
	case 6:
		return name + name + name
	default:
		return string(spaced)
	}
}

// authMethodNames: registered SASL mechanisms and other method names in use.
var authMethodNames = []string{"PLAIN", "LOGIN", "SCRAM-SHA-1", "SCRAM-SHA-256", "SCRAM-SHA-256-PLUS", "SCRAM-SHA-512", "OAUTHBEARER", "XOAUTH2", "EXTERNAL", "ANONYMOUS", "CRAM-MD5", "DIGEST-MD5", "GSSAPI", "GS2-KRB5", "NTLM", "scram-sha-1", "digest", "jwt", "K8S-SAT", "SCRAM-"}
