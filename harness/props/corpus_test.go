package props

import (
	"fmt"
	"os"
	"path/filepath"
	"regexp"
	"strconv"
	"strings"
	"testing"

	"verif/harness/ref"
)

var corpusLitRe = regexp.MustCompile(`(?s)\[\]byte\((.*)\)\s*$`)

// TestCorpusStats is run by the driver after a native fuzz campaign: it reads
// the corpus the fuzzer kept (VERIF_CORPUS, go fuzz v1 files) and reports how
// many entries lie in the domain of the target's oracle, so that the evidence
// says how much of the campaign was more than input validation.
func TestCorpusStats(t *testing.T) {
	dir, target := os.Getenv("VERIF_CORPUS"), os.Getenv("VERIF_CORPUS_TARGET")
	if dir == "" {
		t.Skip("no corpus directory given")
	}
	files, _ := filepath.Glob(filepath.Join(dir, "*"))
	entries, inDomain := 0, 0
	kinds := map[string]int{}
	for _, f := range files {
		raw, err := os.ReadFile(f)
		if err != nil {
			continue
		}
		lines := strings.SplitN(string(raw), "\n", 2)
		if len(lines) != 2 {
			continue
		}
		m := corpusLitRe.FindStringSubmatch(strings.TrimSpace(lines[1]))
		if m == nil {
			continue
		}
		s, err := strconv.Unquote(m[1])
		if err != nil {
			continue
		}
		data := []byte(s)
		entries++
		switch target {
		case "FuzzValidFrame":
			if p, remarks, err := ref.DecodePedantic(data); err == nil && len(remarks) == 0 {
				inDomain++
				kinds[typeName(p.Type)]++
			}
		case "FuzzMustReject":
			if c := ref.RejectClass(data); c != "" {
				inDomain++
				kinds["class-"+c]++
			}
		default:
			if total, _, err := ref.FrameLen(data); err == nil && total == len(data) {
				inDomain++
				kinds[typeName(data[0]>>4)]++
			}
		}
	}
	fmt.Printf("CORPUS target=%s entries=%d in_domain=%d kinds=%v\n", target, entries, inDomain, kinds)
}
