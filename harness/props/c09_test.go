package props

import (
	"bytes"
	"encoding/json"
	"fmt"
	"testing"

	"pgregory.net/rapid"

	"verif/harness/gen"
	"verif/harness/guard"
	"verif/harness/model"
	"verif/harness/ref"
	"verif/harness/vf"
)

// C09 — frames the decoder must reject are rejected.
//
// Base frames come from the reference encoder (valid frames). Mutations:
//  (a) cut strictly inside a field (reference field map), remaining length patched;
//  (b) a variable byte integer replaced by a 5-byte continuation;
//  (c) each boolean property with a value 2..255;
//  (d) each property position x all 229 undefined identifiers.
// Oracle: ReadPacket returns (nil, err != nil); a panic or hang also fails.

type caseC09 struct {
	Frame Hex    `json:"frame"`
	Class string `json:"class"` // a, b, c, d
	Note  string `json:"note,omitempty"`
}

// classifierTally compares the class a generated frame was built for with
// the class the independent classifier in the reference decoder assigns to
// the bytes (ref.RejectClass): two routes to the same domain.
var classifierTally = map[string]int64{}

func checkC09(frame []byte, class, note string) (sig, msg string) {
	switch got := ref.RejectClass(frame); {
	case got == class:
		classifierTally["same"]++
	case got == "":
		classifierTally["no-claim"]++ // e.g. a loose base that is invalid for another reason first
	default:
		classifierTally["other:"+class+"->"+got]++
	}
	p, err, pan := decodeVia("ReadPacket", frame)
	if pan != nil {
		return "panic:" + panicSite(pan), fmt.Sprintf("class (%s) %s: ReadPacket panicked on %s: %v", class, note, hx(frame), pan.Value)
	}
	if err == nil || p != nil {
		return "accepted:" + class + ":" + noteKey(note), fmt.Sprintf("class (%s) %s: ReadPacket accepted a frame it must reject: %s -> %v", class, note, hx(frame), p)
	}
	return "", ""
}

func noteKey(note string) string {
	for i := 0; i < len(note); i++ {
		if note[i] == ' ' {
			return note[:i]
		}
	}
	return note
}

// genC09Base draws a valid base frame; wantBigPropLen steers the property
// section to a length whose low 7-bit groups are zero (128, 256, 16384),
// where a truncated variable byte integer decodes to 0.
func genC09Base(t *rapid.T) (model.Packet, *ref.Frame) {
	typ := gen.Type(t)
	o := gen.Opts{WellFormed: true, SpecValid: true, AllowEmptyUserKey: true, NoHuge: true}
	if rapid.IntRange(0, 3).Draw(t, "loosebase") == 0 {
		// the four classes must be rejected whatever else the frame holds:
		// bases with empty topics / filters, odd option bytes, any strings
		o = gen.Opts{AllowEmptyUserKey: true, NoHuge: true}
		if typ == model.CONNECT {
			o.WellFormed = true // keep the protocol name: another one is rejected before the fields behind it are read
		}
	}
	m := gen.Packet(t, typ, o)
	if m.Type == model.PUBLISH && m.QoS > 2 {
		m.QoS = 2 // with both QoS bits set the layout (packet identifier or not) is undefined
	}
	if typ == model.DISCONNECT {
		gen.DisconnectProps(t, &m, o)
	}
	st := drawStyle(t).style()
	if (m.Type == model.SUBSCRIBE || m.Type == model.UNSUBSCRIBE) && rapid.IntRange(0, 3).Draw(t, "emptyelement") == 0 {
		// a list in which an empty element follows a non-empty one and is
		// followed by a longer one (a decoder that reuses a scratch value
		// across elements skips exactly into the next element)
		x := gen.Topic(t, "x", gen.Opts{Small: true}, true)
		y := x + gen.Topic(t, "y", gen.Opts{Small: true}, true)
		if m.Type == model.SUBSCRIBE {
			m.Filters = []model.Filter{{Filter: x, Opts: 1}, {Filter: "", Opts: 0}, {Filter: y, Opts: 2}}
		} else {
			m.UnsubFilters = []string{x, "", y}
		}
		m.Normalize()
		return m, ref.Tree(&m, st)
	}
	if rapid.IntRange(0, 7).Draw(t, "hugefield") == 0 {
		// one string / binary field at the top of the length range: 65533,
		// 65534 or 65535 bytes (where 16-bit length arithmetic wraps)
		hugeify(t, &m)
		return m, ref.Tree(&m, st)
	}
	if rapid.IntRange(0, 3).Draw(t, "steer-proplen") == 0 && typ != model.PINGREQ && typ != model.PINGRESP {
		// pad with one user property so that the (first) property section is
		// exactly target bytes long
		target := rapid.SampledFrom([]int{128, 256, 384, 16384}).Draw(t, "proplen-target")
		m.UserProps = nil
		if m.Type == model.CONNECT && m.Will != nil {
			// steer the will properties instead, half of the time
		}
		tree := ref.Tree(&m, st)
		secs := tree.PropSections()
		cur := 0
		if len(secs) > 0 {
			for _, k := range secs[0].Kids {
				b, _ := (&ref.Frame{Body: []*ref.Node{k}}).Bytes()
				cur += len(b) - 2
			}
		}
		need := target - cur - 5 // id + two length prefixes
		if need >= 1 {
			m.UserProps = []model.KV{{K: "k", V: string(make([]byte, 0))}}
			pad := make([]byte, need-1)
			for i := range pad {
				pad[i] = 'p'
			}
			m.UserProps[0].V = string(pad)
		}
		st.Form = 2
	}
	return m, ref.Tree(&m, st)
}

func TestC09(t *testing.T) {
	curProp = "C09"
	r := vf.NewRec("C09")
	defer r.Finish(t)
	guard.StartWatchdog(*vf.Out, vf.Label("C09"))

	for _, rf := range r.LoadReplays(t) {
		var c caseC09
		if err := json.Unmarshal(rf.Case, &c); err != nil {
			t.Fatalf("replay %s: %v", rf.Source, err)
		}
		_, msg := checkC09(c.Frame, c.Class, c.Note)
		r.Case(vf.FPs("replay", string(c.Frame)), true, "replay", func() interface{} { return c })
		if msg != "" {
			r.FailReplay(rf, "%s", msg)
		}
	}
	if vf.ReplayOnly() {
		return
	}

	undefined := ref.UndefinedPropIDs()
	boolIDs := map[byte]bool{}
	for _, id := range ref.BoolPropIDs() {
		boolIDs[id] = true
	}
	if len(undefined) != 229 || len(boolIDs) != 7 {
		t.Fatalf("reference property table: %d undefined, %d boolean identifiers", len(undefined), len(boolIDs))
	}

	fail := func(t *rapid.T, frame []byte, class, note, sig, msg string) {
		r.Fail("must-reject", caseC09{Frame: frame, Class: class, Note: note}, sig, "%s", msg)
		t.Fatalf("%s", msg)
	}

	r.Rapid(t, "mutants", vf.N(520, 20000), func(t *rapid.T) {
		m, tree := genC09Base(t)
		frame, spans := tree.Bytes()
		first, hdr, body, _ := ref.Split(frame)
		_ = body
		tn := typeName(m.Type)

		// (a) every cut strictly inside a field
		cuts := ref.InsideFieldCuts(spans)
		if len(cuts) > 400 {
			// long strings: keep boundary-adjacent cuts and a sample
			var keep []ref.Cut
			for i, c := range cuts {
				if c.Part != "body" || i%97 == 0 {
					keep = append(keep, c)
				}
			}
			cuts = keep
		}
		for _, c := range cuts {
			if c.At < hdr {
				continue
			}
			g := ref.Reframe(first, frame[hdr:c.At])
			note := fmt.Sprintf("%s/%s/%s cut at %d of %d", c.Kind, c.Part, c.Name, c.At, len(frame))
			sig, msg := checkC09(g, "a", note)
			r.Case(vf.FP(g), true, "a/"+c.Kind.String()+"/"+c.Part, func() interface{} { return caseC09{Frame: g, Class: "a", Note: tn + " " + note} })
			if msg != "" {
				fail(t, g, "a", note, sig, msg)
			}
		}

		// (b) each variable byte integer position replaced by 5-byte continuations
		for _, lf := range ref.LengthFields(spans) {
			if lf.Kind != ref.KRemLen && lf.Kind != ref.KPropLen && lf.Kind != ref.KVBI {
				continue
			}
			for _, fifth := range []byte{0x00, 0x01, 0x7f, 0x80, 0xff} {
				five := []byte{0x80, 0x80, 0x80, 0x80, fifth}
				if lf.Kind != ref.KRemLen {
					// keep the low bits of the original so the prefix looks plausible
					five[0] = frame[lf.Start] | 0x80
				}
				g := ref.ReplaceBytes(frame, lf.Start, lf.End, five)
				if lf.Kind != ref.KRemLen {
					g = ref.Reframe(first, g[hdr:])
				}
				note := fmt.Sprintf("%s/%s fifth=%02x", lf.Kind, lf.Name, fifth)
				sig, msg := checkC09(g, "b", note)
				r.Case(vf.FP(g), true, "b/"+lf.Kind.String(), func() interface{} { return caseC09{Frame: g, Class: "b", Note: tn + " " + note} })
				if msg != "" {
					fail(t, g, "b", note, sig, msg)
				}
			}
		}

		// (c) boolean properties x values 2..255 ; (d) property positions x undefined ids
		for si, sec := range tree.PropSections() {
			for pi, p := range sec.Kids {
				if boolIDs[p.PropID] {
					orig := p.Kids[1].B[0]
					for v := 2; v <= 255; v++ {
						p.Kids[1].B[0] = byte(v)
						g, _ := tree.Bytes()
						note := fmt.Sprintf("bool property 0x%02x value %d", p.PropID, v)
						sig, msg := checkC09(g, "c", note)
						r.Case(vf.FP(g), true, fmt.Sprintf("c/0x%02x", p.PropID), func() interface{} { return caseC09{Frame: g, Class: "c", Note: tn + " " + note} })
						if msg != "" {
							p.Kids[1].B[0] = orig
							fail(t, g, "c", note, sig, msg)
						}
					}
					p.Kids[1].B[0] = orig
				}
				_ = pi
			}
			// (d) insert an undefined identifier at every property position
			for pos := 0; pos <= len(sec.Kids); pos++ {
				if len(sec.Kids) > 12 && pos > 3 && pos < len(sec.Kids)-3 {
					continue // long user property lists: head and tail positions
				}
				fillerLen := (pos + si) % 4
				for _, id := range undefined {
					filler := make([]byte, 1+fillerLen)
					filler[0] = id
					for i := 1; i < len(filler); i++ {
						filler[i] = byte(i - 1)
					}
					bogus := &ref.Node{Kind: ref.KRaw, Name: "undefined-prop", B: filler}
					kids := append(append(append([]*ref.Node{}, sec.Kids[:pos]...), bogus), sec.Kids[pos:]...)
					saved := sec.Kids
					sec.Kids = kids
					g, _ := tree.Bytes()
					sec.Kids = saved
					note := fmt.Sprintf("undefined property 0x%02x at position %d of section %d", id, pos, si)
					sig, msg := checkC09(g, "d", note)
					r.Case(vf.FP(g), true, "d/"+sec.Name, func() interface{} { return caseC09{Frame: g, Class: "d", Note: tn + " " + note} })
					if msg != "" {
						fail(t, g, "d", note, sig, msg)
					}
				}
			}
		}
	})
	for k, v := range classifierTally {
		r.Count("byte-level classifier vs construction: "+k, v)
	}
	for _, cell := range []string{"a/u16/value", "a/u32/value", "a/str/prefix", "a/str/body", "a/bin/prefix", "a/prop/id-value", "a/proplen/vbi", "a/vbi/vbi", "a/pair/pair-middle", "b/remlen", "b/proplen", "b/vbi", "d/props", "d/willprops"} {
		if r.ClassCount(cell) == 0 && !r.Failed() && *vf.Shards == 1 {
			r.Note("class %s was not reached in this run", cell)
		}
	}
}

// hugeify sets one string or binary field of the model to 65533..65535 bytes.
func hugeify(t *rapid.T, m *model.Packet) {
	n := rapid.SampledFrom([]int{65533, 65534, 65535}).Draw(t, "hugelen")
	s := string(bytes.Repeat([]byte{'h'}, n))
	var targets []func()
	add := func(f func()) { targets = append(targets, f) }
	switch m.Type {
	case model.CONNECT:
		add(func() { m.ClientID = s })
		add(func() { m.Username, m.HasUsername = s, true })
		add(func() { m.Password, m.HasPassword = []byte(s), true })
		add(func() { m.AuthMethod = s })
		if m.Will != nil {
			add(func() { m.Will.Topic = s })
			add(func() { m.Will.Payload = []byte(s) })
			add(func() { m.Will.ContentType = s })
		}
	case model.CONNACK:
		add(func() { m.ReasonString = s })
		add(func() { m.AssignedClientID = s })
		add(func() { m.AuthData, m.AuthMethod = []byte(s), "m" })
	case model.PUBLISH:
		add(func() { m.TopicName = s })
		add(func() { m.ResponseTopic = s })
		add(func() { m.CorrelationData = []byte(s) })
	case model.PUBACK, model.PUBREC, model.PUBREL, model.PUBCOMP, model.SUBACK, model.UNSUBACK, model.DISCONNECT, model.AUTH:
		add(func() { m.ReasonString = s })
	case model.SUBSCRIBE:
		add(func() { m.Filters = append(m.Filters, model.Filter{Filter: s, Opts: 1}) })
	case model.UNSUBSCRIBE:
		add(func() { m.UnsubFilters = append(m.UnsubFilters, s) })
	}
	if m.Type != model.PINGREQ && m.Type != model.PINGRESP {
		add(func() { m.UserProps = append(m.UserProps, model.KV{K: "k", V: s}) })
		add(func() { m.UserProps = append(m.UserProps, model.KV{K: s, V: ""}) })
	}
	if len(targets) == 0 {
		return
	}
	targets[rapid.IntRange(0, len(targets)-1).Draw(t, "hugetarget")]()
	m.Normalize()
}

// FuzzMustReject: coverage-guided search from the byte side. The reference
// decoder classifies the bytes; whenever they are a complete frame that is
// valid up to a point where one of the four must-reject classes applies, the
// library has to reject them.
func FuzzMustReject(f *testing.F) {
	for _, s := range fuzzSeeds() {
		f.Add(s)
		if len(s) > 3 {
			// the same frame cut short with the remaining length patched
			first, hdr, _, ok := ref.Split(s)
			if ok {
				for _, at := range []int{len(s) - 1, hdr + (len(s)-hdr)/2} {
					if at > hdr {
						f.Add(ref.Reframe(first, s[hdr:at]))
					}
				}
			}
		}
	}
	f.Fuzz(func(t *testing.T, data []byte) {
		if len(data) > 1<<17 {
			return
		}
		cls := ref.RejectClass(data)
		if cls == "" {
			return
		}
		if _, msg := checkC09(data, cls, "found by FuzzMustReject"); msg != "" {
			t.Fatalf("%s", msg)
		}
	})
}
