// Package gen holds the boundary-biased rapid generators for the abstract
// packet model. Every random choice goes through rapid so that shrinking and
// replay work; boundary values are produced by construction, not by filtering.
package gen

import (
	"fmt"
	"strings"
	"unicode/utf8"

	"pgregory.net/rapid"

	"verif/harness/model"
)

// Opts selects the input domain.
type Opts struct {
	// WellFormed: only packets that are well formed by MQTT's own rules
	// (topic or alias, packet id != 0 where QoS needs one, >=1 filter /
	// reason code, QoS <= 2). False adds malformed-but-constructible ones.
	WellFormed bool
	// SpecValid: additionally only values a valid MQTT v5.0 frame may carry
	// (valid UTF-8 without NUL, no DUP at QoS 0, Maximum QoS 0/1, legal
	// subscription options, auth data only with an auth method ...).
	SpecValid bool
	// AllowEmptyUserKey: user properties with an empty key may be generated
	// (legal on the wire, but the library's encoder drops them).
	AllowEmptyUserKey bool
	// Small keeps every string/list short (for stateful tests with many steps).
	Small bool
	// NoHuge suppresses lengths >= 16383 (cost control for inner loops).
	NoHuge bool
}

var lenBoundaries = []int{127, 128, 255, 256}
var lenBig = []int{16383, 16384}
var lenHuge = []int{65532, 65533, 65534, 65535}

// Len draws a string/binary length, boundary-biased.
func Len(t *rapid.T, label string, o Opts) int {
	if o.Small {
		return rapid.IntRange(0, 6).Draw(t, label+".len")
	}
	k := rapid.IntRange(0, 99).Draw(t, label+".lenclass")
	switch {
	case k < 62:
		return rapid.IntRange(0, 12).Draw(t, label+".len")
	case k < 72:
		return rapid.SampledFrom([]int{0, 1, 2}).Draw(t, label+".len")
	case k < 84:
		return rapid.SampledFrom(lenBoundaries).Draw(t, label+".len")
	case k < 91:
		return rapid.IntRange(13, 300).Draw(t, label+".len")
	case k < 94:
		if o.NoHuge {
			return rapid.IntRange(0, 300).Draw(t, label+".len")
		}
		return rapid.SampledFrom(lenBig).Draw(t, label+".len")
	case k < 97:
		if o.NoHuge {
			return rapid.IntRange(0, 300).Draw(t, label+".len")
		}
		return rapid.SampledFrom(lenHuge).Draw(t, label+".len")
	default:
		if o.NoHuge {
			return rapid.IntRange(0, 2000).Draw(t, label+".len")
		}
		return rapid.IntRange(301, 65535).Draw(t, label+".len")
	}
}

var asciiAlphabet = []byte("abcdefghijklmnopqrstuvwxyz0123456789/+#$-_ ")

// utf8Pieces: ordinary multi-byte characters plus the code points at the
// edges of the UTF-8 encoding forms and the ones text handling code tends to
// know by name (replacement character U+FFFD, byte order mark U+FEFF, no-break
// space, a combining accent, the last code points before and after the
// surrogate gap, the first and last supplementary ones that are characters).
var utf8Pieces = []string{"å", "ä", "ö", "é", "ü", "€", "日", "本", "😀", "/", "a", "b",
	"\u00a0", "\u07ff", "\u0800", "\ud7ff", "\ue000", "\ufffd", "\ufffd", "\ufeff", "\U00010000", "\U0010fffd", "e\u0301"}

// utf8PiecesLoose adds what MQTT says a string SHOULD NOT contain (control
// characters, non-characters): legal inside the 65 535-byte limit all the same.
var utf8PiecesLoose = append(append([]string{}, utf8Pieces...), "\u0001", "\u001f", "\u007f", "\u0080", "\u009f", "\uffff", "\U0010ffff")

// fillTo expands a short drawn pattern to n bytes.
func fillTo(pattern []byte, n int) []byte {
	if n == 0 {
		return nil
	}
	if len(pattern) == 0 {
		pattern = []byte{'x'}
	}
	out := make([]byte, n)
	for i := 0; i < n; i += copy(out[i:], pattern) {
	}
	return out
}

// Bytes draws binary data of a boundary-biased length.
func Bytes(t *rapid.T, label string, o Opts) []byte {
	n := Len(t, label, o)
	return BytesN(t, label, n)
}

func BytesN(t *rapid.T, label string, n int) []byte {
	if n == 0 {
		return nil
	}
	if n <= 12 {
		return rapid.SliceOfN(rapid.Byte(), n, n).Draw(t, label)
	}
	pat := rapid.SliceOfN(rapid.Byte(), 1, 7).Draw(t, label+".pattern")
	return fillTo(pat, n)
}

// Str draws a string of a boundary-biased length. With SpecValid the content
// is valid UTF-8 without NUL; otherwise it is sometimes arbitrary bytes.
func Str(t *rapid.T, label string, o Opts) string {
	n := Len(t, label, o)
	return StrN(t, label, n, o)
}

func StrN(t *rapid.T, label string, n int, o Opts) string {
	if n == 0 {
		return ""
	}
	kind := rapid.IntRange(0, 9).Draw(t, label+".charset")
	if sub := rapid.IntRange(0, 13).Draw(t, label+".oddcharset"); sub == 0 {
		// whitespace only (valid UTF-8, but empty once trimmed or split)
		return string(fillTo([]byte(rapid.SampledFrom([]string{" ", "\t", "  ", " \t", "\n"}).Draw(t, label+".ws")), n))
	} else if sub == 1 && !o.SpecValid {
		// UTF-8 continuation bytes only: no rune boundary anywhere
		pat := rapid.SliceOfN(rapid.ByteRange(0x80, 0xbf), 1, 3).Draw(t, label+".cont")
		return string(fillTo(pat, n))
	}
	switch {
	case kind < 7: // ascii
		m := n
		if m > 8 {
			m = rapid.IntRange(1, 8).Draw(t, label+".plen")
		}
		pat := rapid.SliceOfN(rapid.SampledFrom(asciiAlphabet), m, m).Draw(t, label)
		return string(fillTo(pat, n))
	case kind < 9 || o.SpecValid: // multi-byte UTF-8, trimmed/padded to n bytes with ascii
		var sb strings.Builder
		for sb.Len() < n {
			pieces := utf8Pieces
			if !o.SpecValid {
				pieces = utf8PiecesLoose
			}
			piece := rapid.SampledFrom(pieces).Draw(t, label+".u")
			if sb.Len()+len(piece) > n {
				break
			}
			sb.WriteString(piece)
			if sb.Len() > 24 {
				break
			}
		}
		pat := sb.String()
		if pat == "" {
			pat = "u"
		}
		// repeat whole pattern, pad remainder with 'a' so that the bytes stay valid UTF-8
		var out strings.Builder
		for out.Len()+len(pat) <= n {
			out.WriteString(pat)
		}
		for out.Len() < n {
			out.WriteByte('a')
		}
		return out.String()
	default: // arbitrary bytes (not necessarily UTF-8)
		return string(BytesN(t, label, n))
	}
}

// topicDictionary holds strings with a meaning in MQTT topic syntax: shared
// subscriptions, system topics, wildcards, empty levels.
var topicDictionary = []string{
	"$share/grp", "$share/grp/", "$share/grp/a/b", "$share//a", "$share", "$share/", "$share/g+/a", "$share/grp/#",
	"$SYS/#", "$SYS/broker/load", "#", "+", "a/+/b", "/", "//", "a/", "/a", "$", "+/+", "a/#", "a/b/c", "sensors/+/temp",
	"clients/%u/gone", "%c/status", "%u", "100%users", "$shares/quotes/#", "${user}/x", "{clientid}/will",
}
var topicTokens = []string{"$share", "$SYS", "/", "/", "+", "#", "a", "b", "grp", "$", "temp"}

// Topic draws a topic name / topic filter: mostly like Str, but a third of
// the time from the MQTT topic dictionary or composed of topic tokens.
func Topic(t *rapid.T, label string, o Opts, nonEmpty bool) string {
	// a topic NAME in a spec-valid frame carries no wildcard characters
	clean := func(s string) string {
		if o.SpecValid && !strings.Contains(label, "filter") {
			s = strings.NewReplacer("+", "p", "#", "h").Replace(s)
		}
		return s
	}
	switch k := rapid.IntRange(0, 9).Draw(t, label+".topickind"); {
	case k < 2:
		return clean(rapid.SampledFrom(topicDictionary).Draw(t, label+".dict"))
	case k < 3:
		n := rapid.IntRange(1, 5).Draw(t, label+".ntok")
		var sb strings.Builder
		for i := 0; i < n; i++ {
			sb.WriteString(rapid.SampledFrom(topicTokens).Draw(t, label+".tok"))
		}
		return clean(sb.String())
	}
	if nonEmpty {
		return NonEmptyStr(t, label, o)
	}
	return Str(t, label, o)
}

// NonEmptyStr draws a string of length >= 1.
func NonEmptyStr(t *rapid.T, label string, o Opts) string {
	n := Len(t, label, o)
	if n == 0 {
		n = 1
	}
	return StrN(t, label, n, o)
}

var u16Boundaries = []uint16{0, 1, 2, 127, 128, 255, 256, 257, 32767, 32768, 65534, 65535}
var u32Boundaries = []uint32{0, 1, 255, 256, 65535, 65536, 65537, 1<<24 - 1, 1 << 24, 1<<31 - 1, 1 << 31, 1<<32 - 2, 1<<32 - 1}
var subIDBoundaries = []uint32{1, 2, 127, 128, 129, 16383, 16384, 16385, 2097151, 2097152, 2097153, 268435454, 268435455}

func U16(t *rapid.T, label string) uint16 {
	if rapid.Bool().Draw(t, label+".b") {
		return rapid.SampledFrom(u16Boundaries).Draw(t, label)
	}
	return rapid.Uint16().Draw(t, label)
}

func U16NonZero(t *rapid.T, label string) uint16 {
	v := U16(t, label)
	if v == 0 {
		return 1
	}
	return v
}

func U32(t *rapid.T, label string) uint32 {
	if rapid.Bool().Draw(t, label+".b") {
		return rapid.SampledFrom(u32Boundaries).Draw(t, label)
	}
	return rapid.Uint32().Draw(t, label)
}

func SubID(t *rapid.T, label string) uint32 {
	if rapid.Bool().Draw(t, label+".b") {
		return rapid.SampledFrom(subIDBoundaries).Draw(t, label)
	}
	return rapid.Uint32Range(1, 268435455).Draw(t, label)
}

// every reason code MQTT v5.0 defines (spec 2.4, table 2-6)
var knownReasonCodes = []uint8{0x00, 0x01, 0x02, 0x04, 0x10, 0x11, 0x18, 0x19,
	0x80, 0x81, 0x82, 0x83, 0x84, 0x85, 0x86, 0x87, 0x88, 0x89, 0x8a, 0x8b, 0x8c, 0x8d, 0x8e, 0x8f,
	0x90, 0x91, 0x92, 0x93, 0x94, 0x95, 0x96, 0x97, 0x98, 0x99, 0x9a, 0x9b, 0x9c, 0x9d, 0x9e, 0x9f,
	0xa0, 0xa1, 0xa2}

func ReasonCode(t *rapid.T, label string) uint8 {
	k := rapid.IntRange(0, 9).Draw(t, label+".k")
	switch {
	case k < 3:
		return 0
	case k < 4:
		// just above "success": where an "is it zero?" test can be off by one
		return rapid.SampledFrom([]uint8{1, 2, 3, 0x7f, 0x80, 0x81, 0xff}).Draw(t, label)
	case k < 8:
		return rapid.SampledFrom(knownReasonCodes).Draw(t, label)
	default:
		return rapid.Uint8().Draw(t, label)
	}
}

// present draws whether an optional field is present (non-zero).
func present(t *rapid.T, label string) bool {
	return rapid.IntRange(0, 2).Draw(t, label+".present") == 0
}

// ListLen draws a list length: 0/1 mostly, sometimes a few, rarely many.
func ListLen(t *rapid.T, label string, min int, o Opts) int {
	if o.Small {
		return rapid.IntRange(min, min+2).Draw(t, label+".n")
	}
	k := rapid.IntRange(0, 19).Draw(t, label+".nclass")
	var n int
	switch {
	case k < 8:
		n = 0
	case k < 13:
		n = 1
	case k < 17:
		n = rapid.IntRange(2, 4).Draw(t, label+".n")
	case k < 19:
		n = rapid.IntRange(5, 20).Draw(t, label+".n")
	default:
		if rapid.Bool().Draw(t, label+".nb") {
			n = rapid.SampledFrom([]int{127, 128, 129, 255, 256}).Draw(t, label+".n")
		} else {
			n = rapid.IntRange(21, 200).Draw(t, label+".n")
		}
	}
	if n < min {
		n = min
	}
	return n
}

func UserProps(t *rapid.T, label string, o Opts) []model.KV {
	n := ListLen(t, label, 0, o)
	if n == 0 {
		return nil
	}
	inner := o
	if n > 4 {
		inner.NoHuge = true
	}
	out := make([]model.KV, 0, n)
	// sometimes a list with a shape: all elements equal, keys ascending, or
	// one element with an empty value
	if n >= 2 && rapid.IntRange(0, 5).Draw(t, label+".shape") == 0 {
		sh := inner
		sh.NoHuge = true // a counter is appended to the key: stay below 65 535 bytes
		k := NonEmptyStr(t, label+".k", sh)
		v := Str(t, label+".v", sh)
		switch rapid.IntRange(0, 2).Draw(t, label+".shapekind") {
		case 0:
			for i := 0; i < n; i++ {
				out = append(out, model.KV{K: k, V: v})
			}
		case 1:
			for i := 0; i < n; i++ {
				out = append(out, model.KV{K: fmt.Sprintf("%s%04d", k, i), V: v})
			}
		default:
			empty := rapid.IntRange(0, n-1).Draw(t, label+".emptyat")
			for i := 0; i < n; i++ {
				kv := model.KV{K: fmt.Sprintf("%s%d", k, i%3), V: v}
				if i == empty {
					kv.V = ""
				}
				out = append(out, kv)
			}
		}
		return out
	}
	for i := 0; i < n; i++ {
		if i > 0 && rapid.IntRange(0, 5).Draw(t, label+".dup") == 0 {
			out = append(out, out[rapid.IntRange(0, i-1).Draw(t, label+".dupidx")])
			continue
		}
		var k string
		if o.AllowEmptyUserKey && rapid.IntRange(0, 7).Draw(t, label+".emptykey") == 0 {
			k = ""
		} else {
			k = NonEmptyStr(t, label+".k", inner)
		}
		v := Str(t, label+".v", inner)
		out = append(out, model.KV{K: k, V: v})
	}
	return out
}

func Will(t *rapid.T, o Opts) *model.Will {
	w := &model.Will{}
	w.Topic = Topic(t, "will.topic", o, o.SpecValid || o.WellFormed)
	w.XDup = !o.SpecValid && rapid.IntRange(0, 3).Draw(t, "will.dup") == 0
	if present(t, "will.payload") {
		w.Payload = Bytes(t, "will.payload", o)
	}
	w.QoS = uint8(rapid.IntRange(0, 2).Draw(t, "will.qos"))
	w.Retain = rapid.Bool().Draw(t, "will.retain")
	w.PayloadFormat = rapid.Bool().Draw(t, "will.pf")
	if present(t, "will.expiry") {
		w.MessageExpiry = U32(t, "will.expiry")
	}
	if present(t, "will.ctype") {
		w.ContentType = Str(t, "will.ctype", o)
	}
	if present(t, "will.rtopic") {
		w.ResponseTopic = Topic(t, "will.rtopic", o, false)
	}
	if present(t, "will.corr") {
		w.CorrelationData = Bytes(t, "will.corr", o)
	}
	w.UserProps = UserProps(t, "will.up", o)
	return w
}

// Type draws one of the 15 packet types.
func Type(t *rapid.T) uint8 {
	return uint8(rapid.IntRange(1, 15).Draw(t, "type"))
}

// Packet draws an abstract packet of the given type inside the domain o.
func Packet(t *rapid.T, typ uint8, o Opts) model.Packet {
	m := model.New(typ)
	switch typ {
	case model.CONNECT:
		m.CleanStart = rapid.Bool().Draw(t, "cleanstart")
		if present(t, "keepalive") {
			m.KeepAlive = U16(t, "keepalive")
		}
		if present(t, "clientid") {
			m.ClientID = Str(t, "clientid", o)
		}
		if present(t, "username") {
			m.Username = Str(t, "username", o)
		}
		m.HasUsername = m.Username != ""
		if present(t, "password") {
			m.Password = Bytes(t, "password", o)
		}
		m.HasPassword = len(m.Password) > 0
		if o.SpecValid && o.AllowEmptyUserKey {
			// wire-level only: the flags may be set with zero-length values
			if !m.HasUsername && rapid.IntRange(0, 3).Draw(t, "emptyuserflag") == 0 {
				m.HasUsername = true
			}
			if !m.HasPassword && rapid.IntRange(0, 3).Draw(t, "emptypassflag") == 0 {
				m.HasPassword = true
			}
		}
		if rapid.IntRange(0, 1).Draw(t, "haswill") == 0 {
			m.Will = Will(t, o)
			if present(t, "willdelay") {
				m.WillDelay = U32(t, "willdelay")
			}
		}
		if present(t, "sessionexpiry") {
			m.SessionExpiry = U32(t, "sessionexpiry")
		}
		if present(t, "receivemax") {
			m.ReceiveMax = U16(t, "receivemax")
		}
		if present(t, "maxpacketsize") {
			m.MaxPacketSize = U32(t, "maxpacketsize")
		}
		if present(t, "topicaliasmax") {
			m.TopicAliasMax = U16(t, "topicaliasmax")
		}
		m.RequestResponseInfo = rapid.Bool().Draw(t, "reqresp")
		m.RequestProblemInfo = rapid.Bool().Draw(t, "reqprob")
		if present(t, "authmethod") {
			m.AuthMethod = Str(t, "authmethod", o)
		}
		if present(t, "authdata") && (!o.SpecValid || m.AuthMethod != "") {
			m.AuthData = Bytes(t, "authdata", o)
		}
		m.UserProps = UserProps(t, "up", o)
		if !o.WellFormed && !o.SpecValid && rapid.IntRange(0, 9).Draw(t, "protoalt") == 0 {
			m.ProtocolName = Str(t, "protoname", Opts{Small: true})
			m.ProtocolVersion = rapid.Uint8().Draw(t, "protover")
		}
	case model.CONNACK:
		m.SessionPresent = rapid.Bool().Draw(t, "sessionpresent")
		m.ReasonCode = ReasonCode(t, "reason")
		if present(t, "reasonstring") {
			m.ReasonString = Str(t, "reasonstring", o)
		}
		if present(t, "sessionexpiry") {
			m.SessionExpiry = U32(t, "sessionexpiry")
		}
		if present(t, "receivemax") {
			m.ReceiveMax = U16(t, "receivemax")
		}
		if present(t, "maxqos") {
			if o.SpecValid {
				m.MaxQoS = uint8(rapid.IntRange(0, 1).Draw(t, "maxqos"))
			} else {
				m.MaxQoS = rapid.SampledFrom([]uint8{0, 1, 2, 3, 255}).Draw(t, "maxqos")
			}
		}
		m.RetainAvailable = rapid.Bool().Draw(t, "retainavail")
		if present(t, "maxpacketsize") {
			m.MaxPacketSize = U32(t, "maxpacketsize")
		}
		if present(t, "assignedid") {
			m.AssignedClientID = Str(t, "assignedid", o)
		}
		if present(t, "topicaliasmax") {
			m.TopicAliasMax = U16(t, "topicaliasmax")
		}
		m.WildcardSubAvail = rapid.Bool().Draw(t, "wildcard")
		m.SubIDsAvail = rapid.Bool().Draw(t, "subids")
		m.SharedSubAvail = rapid.Bool().Draw(t, "shared")
		if present(t, "serverkeepalive") {
			m.ServerKeepAlive = U16(t, "serverkeepalive")
		}
		if present(t, "respinfo") {
			m.ResponseInformation = Str(t, "respinfo", o)
		}
		if present(t, "serverref") {
			m.ServerReference = Str(t, "serverref", o)
			if m.ServerReference != "" && rapid.Bool().Draw(t, "redirectcode") {
				m.ReasonCode = rapid.SampledFrom([]uint8{0x9c, 0x9d}).Draw(t, "redirect")
			}
		}
		if present(t, "authmethod") {
			m.AuthMethod = Str(t, "authmethod", o)
		}
		if present(t, "authdata") && (!o.SpecValid || m.AuthMethod != "") {
			m.AuthData = Bytes(t, "authdata", o)
		}
		m.UserProps = UserProps(t, "up", o)
	case model.PUBLISH:
		maxQ := 2
		if !o.WellFormed && !o.SpecValid {
			maxQ = 3
		}
		m.QoS = uint8(rapid.IntRange(0, maxQ).Draw(t, "qos"))
		m.Dup = rapid.Bool().Draw(t, "dup")
		if o.SpecValid && m.QoS == 0 {
			m.Dup = false
		}
		m.Retain = rapid.Bool().Draw(t, "retain")
		if present(t, "topicalias") {
			m.TopicAlias = U16(t, "topicalias")
		}
		if m.TopicAlias == 0 || present(t, "topic") {
			m.TopicName = Topic(t, "topic", o, false)
		}
		if (o.WellFormed || o.SpecValid) && m.TopicName == "" && m.TopicAlias == 0 {
			m.TopicName = NonEmptyStr(t, "topic2", o)
		}
		if m.QoS > 0 || !o.SpecValid {
			m.PacketID = U16(t, "packetid")
			if (o.WellFormed || o.SpecValid) && m.QoS > 0 && m.PacketID == 0 {
				m.PacketID = 1
			}
		}
		m.PayloadFormat = rapid.Bool().Draw(t, "pf")
		if present(t, "expiry") {
			m.MessageExpiry = U32(t, "expiry")
		}
		if present(t, "rtopic") {
			m.ResponseTopic = Topic(t, "rtopic", o, false)
		}
		if present(t, "corr") {
			m.CorrelationData = Bytes(t, "corr", o)
		}
		if present(t, "ctype") {
			m.ContentType = Str(t, "ctype", o)
		}
		n := ListLen(t, "subids", 0, o)
		for i := 0; i < n; i++ {
			m.SubIDs = append(m.SubIDs, SubID(t, "subid"))
		}
		if present(t, "payload") {
			m.Payload = Bytes(t, "payload", o)
		}
		m.UserProps = UserProps(t, "up", o)
	case model.PUBACK, model.PUBREC, model.PUBREL, model.PUBCOMP:
		m.PacketID = U16(t, "packetid")
		if o.SpecValid && m.PacketID == 0 {
			m.PacketID = 1
		}
		m.ReasonCode = ReasonCode(t, "reason")
		if present(t, "reasonstring") {
			m.ReasonString = Str(t, "reasonstring", o)
		}
		m.UserProps = UserProps(t, "up", o)
	case model.SUBSCRIBE:
		m.PacketID = U16(t, "packetid")
		if o.SpecValid && m.PacketID == 0 {
			m.PacketID = 1
		}
		if present(t, "subid") {
			m.SubID = int(SubID(t, "subid"))
		}
		min := 0
		if o.WellFormed || o.SpecValid {
			min = 1
		}
		n := ListLen(t, "filters", min, o)
		inner := o
		if n > 4 {
			inner.NoHuge = true
		}
		for i := 0; i < n; i++ {
			var f model.Filter
			if o.SpecValid || o.WellFormed {
				// an empty filter string is inside the length limits (and the
				// library stores it); only spec-valid frames never carry one
				f.Filter = Topic(t, "filter", inner, o.SpecValid || rapid.IntRange(0, 11).Draw(t, "emptyfilter") != 0)
				f.Opts = uint8(rapid.IntRange(0, 2).Draw(t, "fqos")) |
					uint8(rapid.IntRange(0, 3).Draw(t, "fnlrap"))<<2 |
					uint8(rapid.IntRange(0, 2).Draw(t, "fretain"))<<4
			} else {
				f.Filter = Topic(t, "filter", inner, false)
				f.Opts = rapid.Uint8().Draw(t, "fopts")
			}
			m.Filters = append(m.Filters, f)
		}
		m.UserProps = UserProps(t, "up", o)
		if !o.SpecValid && len(m.Filters) >= 2 && rapid.IntRange(0, 3).Draw(t, "oneempty") == 0 {
			k := rapid.IntRange(0, len(m.Filters)-1).Draw(t, "emptyat")
			for i := range m.Filters {
				if m.Filters[i].Filter == "" {
					m.Filters[i].Filter = "f"
				}
			}
			m.Filters[k].Filter = ""
		}
	case model.SUBACK, model.UNSUBACK:
		m.PacketID = U16(t, "packetid")
		if o.SpecValid && m.PacketID == 0 {
			m.PacketID = 1
		}
		if present(t, "reasonstring") {
			m.ReasonString = Str(t, "reasonstring", o)
		}
		min := 0
		if o.WellFormed || o.SpecValid {
			min = 1
		}
		n := ListLen(t, "codes", min, o)
		for i := 0; i < n; i++ {
			m.ReasonCodes = append(m.ReasonCodes, ReasonCode(t, "code"))
		}
		m.UserProps = UserProps(t, "up", o)
	case model.UNSUBSCRIBE:
		m.PacketID = U16(t, "packetid")
		if o.SpecValid && m.PacketID == 0 {
			m.PacketID = 1
		}
		min := 0
		if o.WellFormed || o.SpecValid {
			min = 1
		}
		n := ListLen(t, "filters", min, o)
		inner := o
		if n > 4 {
			inner.NoHuge = true
		}
		for i := 0; i < n; i++ {
			if o.SpecValid || o.WellFormed {
				m.UnsubFilters = append(m.UnsubFilters, Topic(t, "filter", inner, o.SpecValid || rapid.IntRange(0, 11).Draw(t, "emptyfilter") != 0))
			} else {
				m.UnsubFilters = append(m.UnsubFilters, Topic(t, "filter", inner, false))
			}
		}
		m.UserProps = UserProps(t, "up", o)
		if !o.SpecValid && len(m.UnsubFilters) >= 2 && rapid.IntRange(0, 3).Draw(t, "oneempty") == 0 {
			k := rapid.IntRange(0, len(m.UnsubFilters)-1).Draw(t, "emptyat")
			for i := range m.UnsubFilters {
				if m.UnsubFilters[i] == "" {
					m.UnsubFilters[i] = "f"
				}
			}
			m.UnsubFilters[k] = ""
		}
	case model.PINGREQ, model.PINGRESP:
	case model.DISCONNECT:
		m.ReasonCode = ReasonCode(t, "reason")
		m.UserProps = UserProps(t, "up", o)
	case model.AUTH:
		m.ReasonCode = ReasonCode(t, "reason")
		if present(t, "reasonstring") {
			m.ReasonString = Str(t, "reasonstring", o)
		}
		if present(t, "authmethod") {
			m.AuthMethod = Str(t, "authmethod", o)
		}
		if present(t, "authdata") && (!o.SpecValid || m.AuthMethod != "") {
			m.AuthData = Bytes(t, "authdata", o)
		}
		m.UserProps = UserProps(t, "up", o)
	}
	m.XEmptyNonNil = rapid.Bool().Draw(t, "emptynonnil")
	if !o.Small && rapid.IntRange(0, 7).Draw(t, "correlate") == 0 {
		correlate(t, &m)
	}
	m.Normalize()
	return m
}

// correlate makes one string field equal to, or a prefix of, another one
// (a client identifier that is also the user name, a response topic equal to
// the topic, a user property value equal to its key ...).
func correlate(t *rapid.T, m *model.Packet) {
	var fields []*string
	add := func(p *string) {
		fields = append(fields, p)
	}
	switch m.Type {
	case model.CONNECT:
		add(&m.ClientID)
		if m.HasUsername {
			add(&m.Username)
		}
		add(&m.AuthMethod)
		if m.Will != nil {
			add(&m.Will.Topic)
			add(&m.Will.ResponseTopic)
			add(&m.Will.ContentType)
		}
	case model.CONNACK:
		add(&m.ReasonString)
		add(&m.AssignedClientID)
		add(&m.ResponseInformation)
		add(&m.ServerReference)
		add(&m.AuthMethod)
	case model.PUBLISH:
		add(&m.TopicName)
		add(&m.ResponseTopic)
		add(&m.ContentType)
	case model.AUTH:
		add(&m.ReasonString)
		add(&m.AuthMethod)
	}
	for i := range m.UserProps {
		add(&m.UserProps[i].K)
		add(&m.UserProps[i].V)
	}
	var src []*string
	for _, f := range fields {
		if *f != "" && len(*f) <= 300 {
			src = append(src, f)
		}
	}
	if len(src) == 0 || len(fields) < 2 {
		return
	}
	from := src[rapid.IntRange(0, len(src)-1).Draw(t, "corr.from")]
	to := fields[rapid.IntRange(0, len(fields)-1).Draw(t, "corr.to")]
	if from == to || *to == "" {
		return // only overwrite fields that are present (keeps domain constraints such as non-empty keys)
	}
	v := *from
	if rapid.IntRange(0, 2).Draw(t, "corr.prefix") == 0 && len(v) > 1 {
		cut := rapid.IntRange(1, len(v)-1).Draw(t, "corr.cut")
		for cut > 0 && !utf8.RuneStart(v[cut]) {
			cut-- // keep valid UTF-8 valid
		}
		if cut > 0 {
			v = v[:cut]
		}
	}
	*to = v
}

// DisconnectProps adds the three DISCONNECT properties (reason string,
// session expiry interval, server reference) to a DISCONNECT model.
func DisconnectProps(t *rapid.T, m *model.Packet, o Opts) {
	if present(t, "d.reasonstring") {
		m.ReasonString = Str(t, "d.reasonstring", o)
	}
	if present(t, "d.sessionexpiry") {
		m.SessionExpiry = U32(t, "d.sessionexpiry")
	}
	if present(t, "d.serverref") {
		m.ServerReference = Str(t, "d.serverref", o)
		if m.ServerReference != "" && rapid.Bool().Draw(t, "d.redirectcode") {
			m.ReasonCode = rapid.SampledFrom([]uint8{0x9c, 0x9d}).Draw(t, "d.redirect")
		}
	}
}
