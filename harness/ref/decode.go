package ref

import (
	"encoding/binary"
	"fmt"
	"strings"
	"unicode/utf8"

	"verif/harness/model"
)

// Wire types of properties (spec 2.2.2.2, table 2-4).
type wt int

const (
	tByte wt = iota
	tU16
	tU32
	tVBI
	tStr
	tBin
	tPair
)

type propDef struct {
	name   string
	typ    wt
	flag   bool   // value restricted to 0/1
	repeat bool   // may appear more than once
	in     uint32 // bit set of packet types in which the property is allowed; bit 16 = will properties
}

const willBit = 16

func in(types ...int) uint32 {
	var s uint32
	for _, t := range types {
		s |= 1 << uint(t)
	}
	return s
}

// PropTable is the property table of MQTT v5.0 (table 2-4), 27 identifiers.
var PropTable = map[byte]propDef{
	0x01: {"Payload Format Indicator", tByte, true, false, in(model.PUBLISH, willBit)},
	0x02: {"Message Expiry Interval", tU32, false, false, in(model.PUBLISH, willBit)},
	0x03: {"Content Type", tStr, false, false, in(model.PUBLISH, willBit)},
	0x08: {"Response Topic", tStr, false, false, in(model.PUBLISH, willBit)},
	0x09: {"Correlation Data", tBin, false, false, in(model.PUBLISH, willBit)},
	0x0b: {"Subscription Identifier", tVBI, false, true, in(model.PUBLISH, model.SUBSCRIBE)},
	0x11: {"Session Expiry Interval", tU32, false, false, in(model.CONNECT, model.CONNACK, model.DISCONNECT)},
	0x12: {"Assigned Client Identifier", tStr, false, false, in(model.CONNACK)},
	0x13: {"Server Keep Alive", tU16, false, false, in(model.CONNACK)},
	0x15: {"Authentication Method", tStr, false, false, in(model.CONNECT, model.CONNACK, model.AUTH)},
	0x16: {"Authentication Data", tBin, false, false, in(model.CONNECT, model.CONNACK, model.AUTH)},
	0x17: {"Request Problem Information", tByte, true, false, in(model.CONNECT)},
	0x18: {"Will Delay Interval", tU32, false, false, in(willBit)},
	0x19: {"Request Response Information", tByte, true, false, in(model.CONNECT)},
	0x1a: {"Response Information", tStr, false, false, in(model.CONNACK)},
	0x1c: {"Server Reference", tStr, false, false, in(model.CONNACK, model.DISCONNECT)},
	0x1f: {"Reason String", tStr, false, false, in(model.CONNACK, model.PUBACK, model.PUBREC, model.PUBREL, model.PUBCOMP, model.SUBACK, model.UNSUBACK, model.DISCONNECT, model.AUTH)},
	0x21: {"Receive Maximum", tU16, false, false, in(model.CONNECT, model.CONNACK)},
	0x22: {"Topic Alias Maximum", tU16, false, false, in(model.CONNECT, model.CONNACK)},
	0x23: {"Topic Alias", tU16, false, false, in(model.PUBLISH)},
	0x24: {"Maximum QoS", tByte, false, false, in(model.CONNACK)},
	0x25: {"Retain Available", tByte, true, false, in(model.CONNACK)},
	0x26: {"User Property", tPair, false, true, in(model.CONNECT, model.CONNACK, model.PUBLISH, model.PUBACK, model.PUBREC, model.PUBREL, model.PUBCOMP, model.SUBSCRIBE, model.SUBACK, model.UNSUBSCRIBE, model.UNSUBACK, model.DISCONNECT, model.AUTH, willBit)},
	0x27: {"Maximum Packet Size", tU32, false, false, in(model.CONNECT, model.CONNACK)},
	0x28: {"Wildcard Subscription Available", tByte, true, false, in(model.CONNACK)},
	0x29: {"Subscription Identifier Available", tByte, true, false, in(model.CONNACK)},
	0x2a: {"Shared Subscription Available", tByte, true, false, in(model.CONNACK)},
}

// UndefinedPropIDs returns the 229 identifiers MQTT v5.0 does not define.
func UndefinedPropIDs() []byte {
	var out []byte
	for i := 0; i < 256; i++ {
		if _, ok := PropTable[byte(i)]; !ok {
			out = append(out, byte(i))
		}
	}
	return out
}

// BoolPropIDs are the seven properties whose value must be 0 or 1.
func BoolPropIDs() []byte {
	var out []byte
	for i := 0; i < 256; i++ {
		if d, ok := PropTable[byte(i)]; ok && d.flag {
			out = append(out, byte(i))
		}
	}
	return out
}

type rd struct {
	b   []byte
	i   int
	err error
	// cls is the must-reject class of property C09 that the FIRST failure
	// falls into ("a" the frame ends strictly inside a field, "b" a variable
	// byte integer longer than four bytes, "c" a boolean property with a
	// value other than 0/1, "d" an undefined property identifier), or "".
	cls string
	// begun: the field being read has already begun (a length prefix was
	// consumed, or a property identifier announces a value), so that running
	// out of bytes even with none left means the frame ends inside it.
	begun bool
	// ped collects values that parse but that the specification calls a
	// Protocol Error or otherwise forbids (Receive Maximum 0, a topic name
	// with wildcards, ill-formed UTF-8, ...): a decoder may or may not reject
	// them, so frames carrying one are outside the valid-frame language for
	// the purpose of "must be accepted" claims made from raw bytes.
	ped []string
}

func (r *rd) pedantic(format string, a ...interface{}) {
	r.ped = append(r.ped, fmt.Sprintf(format, a...))
}

func (r *rd) fail(format string, a ...interface{}) {
	if r.err == nil {
		r.err = fmt.Errorf("offset %d: "+format, append([]interface{}{r.i}, a...)...)
	}
}
func (r *rd) failClass(cls, format string, a ...interface{}) {
	if r.err == nil {
		r.cls = cls
	}
	r.fail(format, a...)
}
func (r *rd) need(n int, what string) bool {
	if r.err != nil {
		return false
	}
	if left := len(r.b) - r.i; left < n {
		if left > 0 || r.begun {
			r.failClass("a", "%s: need %d bytes, %d left", what, n, left)
		} else {
			r.fail("%s: need %d bytes, %d left", what, n, left)
		}
		return false
	}
	return true
}
func (r *rd) u8(what string) byte {
	if !r.need(1, what) {
		return 0
	}
	v := r.b[r.i]
	r.i++
	return v
}
func (r *rd) u16(what string) uint16 {
	if !r.need(2, what) {
		return 0
	}
	v := binary.BigEndian.Uint16(r.b[r.i:])
	r.i += 2
	return v
}
func (r *rd) u32(what string) uint32 {
	if !r.need(4, what) {
		return 0
	}
	v := binary.BigEndian.Uint32(r.b[r.i:])
	r.i += 4
	return v
}
func (r *rd) bin(what string) []byte {
	n := int(r.u16(what + " length"))
	was := r.begun
	r.begun = true // the length prefix has been consumed
	ok := r.need(n, what)
	r.begun = was
	if !ok {
		return nil
	}
	v := append([]byte(nil), r.b[r.i:r.i+n]...)
	r.i += n
	return v
}
func (r *rd) str(what string) string {
	v := string(r.bin(what))
	if !utf8.ValidString(v) || strings.ContainsRune(v, 0) {
		r.pedantic("%s is not a well-formed UTF-8 string without U+0000", what)
	}
	return v
}

// vbi reads a variable byte integer; it must be minimal when strict.
func (r *rd) vbi(what string) uint32 {
	v, n, err := DecodeVBI(r.b[r.i:])
	if r.err != nil {
		return 0
	}
	if err != nil {
		switch {
		case n == 4:
			r.failClass("b", "%s: %v", what, err)
		case n > 0 || r.begun:
			r.failClass("a", "%s: %v", what, err) // ends on a continuation byte
		default:
			r.fail("%s: %v", what, err)
		}
		return 0
	}
	if len(VBI(v)) != n {
		r.fail("%s: non-minimal variable byte integer", what)
		return 0
	}
	r.i += n
	return v
}

// DecodeVBI implements the decoding algorithm of spec 1.5.5: at most four
// bytes; the sequence must end on a byte without continuation bit.
func DecodeVBI(b []byte) (value uint32, n int, err error) {
	mult := uint32(1)
	for {
		if n >= len(b) {
			return 0, n, fmt.Errorf("variable byte integer truncated")
		}
		if n == 4 {
			return 0, n, fmt.Errorf("variable byte integer longer than four bytes")
		}
		d := b[n]
		n++
		value += uint32(d&127) * mult
		if d&128 == 0 {
			return value, n, nil
		}
		mult *= 128
	}
}

type propSink struct {
	m    *model.Packet
	will bool
}

func (r *rd) props(m *model.Packet, scope int) {
	plen := int(r.vbi("property length"))
	if r.err != nil {
		return
	}
	if !r.need(plen, "properties") {
		return
	}
	end := r.i + plen
	seen := map[byte]bool{}
	for r.i < end && r.err == nil {
		id := r.u8("property identifier")
		d, ok := PropTable[id]
		if !ok {
			r.failClass("d", "undefined property identifier 0x%02x", id)
			return
		}
		if d.in&(1<<uint(scope)) == 0 {
			r.fail("property 0x%02x (%s) not allowed here", id, d.name)
			return
		}
		if seen[id] && !d.repeat {
			r.fail("property 0x%02x (%s) more than once", id, d.name)
			return
		}
		if id == 0x0b && scope == model.SUBSCRIBE && seen[id] {
			r.fail("subscription identifier more than once in SUBSCRIBE")
			return
		}
		seen[id] = true
		var (
			vb  byte
			v16 uint16
			v32 uint32
			vs  string
			vbn []byte
			kv  model.KV
		)
		r.begun = true // between the identifier and its value
		switch d.typ {
		case tByte:
			vb = r.u8(d.name)
			if d.flag && vb > 1 {
				r.failClass("c", "%s: value %d is not 0 or 1", d.name, vb)
			}
		case tU16:
			v16 = r.u16(d.name)
		case tU32:
			v32 = r.u32(d.name)
		case tVBI:
			v32 = r.vbi(d.name)
		case tStr:
			vs = r.str(d.name)
		case tBin:
			vbn = r.bin(d.name)
		case tPair:
			kv.K = r.str(d.name + " key")
			r.begun = false // a frame ending between key and value is not claimed
			kv.V = r.str(d.name + " value")
		}
		r.begun = false
		if r.err != nil {
			return
		}
		switch {
		case (id == 0x21 || id == 0x23) && v16 == 0, id == 0x27 && v32 == 0, id == 0x0b && v32 == 0:
			r.pedantic("%s with the value 0 is a Protocol Error", d.name)
		case id == 0x24 && vb > 1:
			r.pedantic("Maximum QoS %d", vb)
		case (id == 0x08) && strings.ContainsAny(vs, "#+"):
			r.pedantic("response topic with wildcard characters")
		}
		if r.i > end {
			r.fail("property 0x%02x overruns the property length", id)
			return
		}
		if scope == willBit {
			w := m.Will
			switch id {
			case 0x18:
				m.WillDelay = v32
			case 0x01:
				w.PayloadFormat = vb == 1
			case 0x02:
				w.MessageExpiry = v32
			case 0x03:
				w.ContentType = vs
			case 0x08:
				w.ResponseTopic = vs
			case 0x09:
				w.CorrelationData = vbn
			case 0x26:
				w.UserProps = append(w.UserProps, kv)
			}
			continue
		}
		switch id {
		case 0x01:
			m.PayloadFormat = vb == 1
		case 0x02:
			m.MessageExpiry = v32
		case 0x03:
			m.ContentType = vs
		case 0x08:
			m.ResponseTopic = vs
		case 0x09:
			m.CorrelationData = vbn
		case 0x0b:
			if scope == model.SUBSCRIBE {
				m.SubID = int(v32)
			} else {
				m.SubIDs = append(m.SubIDs, v32)
			}
		case 0x11:
			m.SessionExpiry = v32
		case 0x12:
			m.AssignedClientID = vs
		case 0x13:
			m.ServerKeepAlive = v16
		case 0x15:
			m.AuthMethod = vs
		case 0x16:
			m.AuthData = vbn
		case 0x17:
			m.RequestProblemInfo = vb == 1
		case 0x19:
			m.RequestResponseInfo = vb == 1
		case 0x1a:
			m.ResponseInformation = vs
		case 0x1c:
			m.ServerReference = vs
		case 0x1f:
			m.ReasonString = vs
		case 0x21:
			m.ReceiveMax = v16
		case 0x22:
			m.TopicAliasMax = v16
		case 0x23:
			m.TopicAlias = v16
		case 0x24:
			m.MaxQoS = vb
		case 0x25:
			m.RetainAvailable = vb == 1
		case 0x26:
			m.UserProps = append(m.UserProps, kv)
		case 0x27:
			m.MaxPacketSize = v32
		case 0x28:
			m.WildcardSubAvail = vb == 1
		case 0x29:
			m.SubIDsAvail = vb == 1
		case 0x2a:
			m.SharedSubAvail = vb == 1
		}
	}
	if r.err == nil && r.i != end {
		r.fail("properties end at %d, property length says %d", r.i, end)
	}
}

// FrameLen parses only the framing of the first frame in b: it returns the
// total frame length 1 + len(remaining length field) + remaining length.
func FrameLen(b []byte) (total int, hdr int, err error) {
	if len(b) < 2 {
		return 0, 0, fmt.Errorf("frame shorter than a fixed header")
	}
	rl, n, err := DecodeVBI(b[1:])
	if err != nil {
		return 0, 0, err
	}
	return 1 + n + int(rl), 1 + n, nil
}

// DecodeStrict accepts exactly one structurally valid MQTT v5.0 control
// packet occupying all of frame, per the list in property C02, and returns
// the values it carries (an absent property is the zero value).
func DecodeStrict(frame []byte) (model.Packet, error) {
	m, _, err := decodeStrict(frame)
	return m, err
}

// RejectClass returns "a", "b", "c" or "d" when frame is a complete frame
// (type 1..15, correct reserved flags, remaining length equal to the bytes
// that follow) that is valid up to a point where it falls into one of the
// must-reject classes of property C09, and "" otherwise (valid frames, and
// frames that are invalid for any other reason first).
func RejectClass(frame []byte) string {
	_, cls, _ := decodeStrict(frame)
	return cls
}

// DecodePedantic is DecodeStrict plus a list of remarks about values that
// parse but that MQTT v5.0 forbids or calls a Protocol Error; a frame with
// remarks is structurally readable, yet a decoder that rejects it is not
// wrong, so "must be accepted" is only claimed for frames without remarks.
func DecodePedantic(frame []byte) (model.Packet, []string, error) {
	pedNotes = nil
	m, _, err := decodeStrict(frame)
	if err != nil {
		return m, nil, err
	}
	notes := pedNotes
	notes = append(notes, modelRemarks(&m)...)
	return m, notes, nil
}

// pedNotes carries the remarks of the last decodeStrict0 call (single goroutine).
var pedNotes []string

// modelRemarks: what the specification forbids at the level of whole packets.
func modelRemarks(m *model.Packet) []string {
	var out []string
	add := func(f string, a ...interface{}) { out = append(out, fmt.Sprintf(f, a...)) }
	needID := func() {
		if m.PacketID == 0 {
			add("packet identifier 0")
		}
	}
	switch m.Type {
	case model.CONNECT:
		if m.AuthMethod == "" && len(m.AuthData) > 0 {
			add("authentication data without method")
		}
		if w := m.Will; w != nil {
			if w.Topic == "" || strings.ContainsAny(w.Topic, "#+") {
				add("will topic empty or with wildcard characters")
			}
			if strings.ContainsAny(w.ResponseTopic, "#+") {
				add("will response topic with wildcard characters")
			}
			if w.PayloadFormat && !utf8.Valid(w.Payload) {
				add("will payload format says UTF-8, payload is not")
			}
		}
	case model.CONNACK, model.AUTH:
		if m.AuthMethod == "" && len(m.AuthData) > 0 {
			add("authentication data without method")
		}
	case model.PUBLISH:
		if m.QoS > 0 {
			needID()
		}
		if m.QoS == 0 && m.Dup {
			add("DUP set at QoS 0")
		}
		if m.TopicName == "" && m.TopicAlias == 0 {
			add("neither topic name nor topic alias")
		}
		if strings.ContainsAny(m.TopicName, "#+") {
			add("topic name with wildcard characters")
		}
		if m.PayloadFormat && !utf8.Valid(m.Payload) {
			add("payload format says UTF-8, payload is not")
		}
	case model.PUBACK, model.PUBREC, model.PUBREL, model.PUBCOMP, model.SUBACK, model.UNSUBACK:
		needID()
	case model.SUBSCRIBE:
		needID()
		for _, f := range m.Filters {
			if f.Filter == "" {
				add("empty topic filter")
			}
			if strings.HasPrefix(f.Filter, "$share/") && f.Opts&4 != 0 {
				add("No Local on a shared subscription")
			}
		}
	case model.UNSUBSCRIBE:
		needID()
		for _, f := range m.UnsubFilters {
			if f == "" {
				add("empty topic filter")
			}
		}
	}
	return out
}

func decodeStrict(frame []byte) (model.Packet, string, error) {
	m, cls, err := decodeStrict0(frame)
	if err == nil {
		cls = ""
	}
	return m, cls, err
}

func decodeStrict0(frame []byte) (m model.Packet, cls string, err error) {
	if len(frame) < 2 {
		return m, "", fmt.Errorf("frame shorter than a fixed header")
	}
	first := frame[0]
	typ := first >> 4
	flags := first & 15
	if typ == 0 {
		return m, "", fmt.Errorf("packet type 0 is reserved")
	}
	rl, n, err := DecodeVBI(frame[1:])
	if err != nil {
		if n == 4 {
			return m, "b", fmt.Errorf("remaining length: %v", err)
		}
		return m, "", fmt.Errorf("remaining length: %v", err)
	}
	if len(VBI(rl)) != n {
		return m, "", fmt.Errorf("remaining length is not minimal")
	}
	if len(frame) != 1+n+int(rl) {
		return m, "", fmt.Errorf("remaining length %d but %d bytes follow", rl, len(frame)-1-n)
	}
	m = model.New(typ)
	switch typ {
	case model.PUBLISH:
		m.Dup = flags&8 != 0
		m.QoS = (flags >> 1) & 3
		m.Retain = flags&1 != 0
		if m.QoS == 3 {
			return m, "", fmt.Errorf("PUBLISH with both QoS bits set")
		}
	case model.PUBREL, model.SUBSCRIBE, model.UNSUBSCRIBE:
		if flags != 2 {
			return m, "", fmt.Errorf("%s: reserved flags must be 0010, got %04b", model.TypeNames[typ], flags)
		}
	default:
		if flags != 0 {
			return m, "", fmt.Errorf("%s: reserved flags must be 0000, got %04b", model.TypeNames[typ], flags)
		}
	}
	r := &rd{b: frame[1+n:]}
	switch typ {
	case model.CONNECT:
		m.ProtocolName = r.str("protocol name")
		if r.err == nil && m.ProtocolName != "MQTT" {
			r.fail("protocol name %q", m.ProtocolName)
		}
		m.ProtocolVersion = r.u8("protocol version")
		if r.err == nil && m.ProtocolVersion != 5 {
			r.fail("protocol version %d", m.ProtocolVersion)
		}
		cf := r.u8("connect flags")
		if r.err == nil {
			if cf&1 != 0 {
				r.fail("reserved connect flag set")
			}
			willQoS := (cf >> 3) & 3
			if cf&4 == 0 && (willQoS != 0 || cf&0x20 != 0) {
				r.fail("will QoS / will retain set without will flag")
			}
			if willQoS == 3 {
				r.fail("will QoS 3")
			}
		}
		m.KeepAlive = r.u16("keep alive")
		m.CleanStart = cf&2 != 0
		r.props(&m, model.CONNECT)
		m.ClientID = r.str("client identifier")
		if cf&4 != 0 {
			m.Will = &model.Will{QoS: (cf >> 3) & 3, Retain: cf&0x20 != 0}
			r.props(&m, willBit)
			m.Will.Topic = r.str("will topic")
			m.Will.Payload = r.bin("will payload")
		}
		if cf&0x80 != 0 {
			m.HasUsername = true
			m.Username = r.str("user name")
		}
		if cf&0x40 != 0 {
			m.HasPassword = true
			m.Password = r.bin("password")
		}
	case model.CONNACK:
		af := r.u8("acknowledge flags")
		if r.err == nil && af > 1 {
			r.fail("reserved acknowledge flags set: %08b", af)
		}
		m.SessionPresent = af&1 != 0
		m.ReasonCode = r.u8("reason code")
		r.props(&m, model.CONNACK)
	case model.PUBLISH:
		m.TopicName = r.str("topic name")
		if m.QoS > 0 {
			m.PacketID = r.u16("packet identifier")
		}
		r.props(&m, model.PUBLISH)
		if r.err == nil {
			m.Payload = append([]byte(nil), r.b[r.i:]...)
			r.i = len(r.b)
		}
	case model.PUBACK, model.PUBREC, model.PUBREL, model.PUBCOMP:
		m.PacketID = r.u16("packet identifier")
		if r.err == nil && r.i < len(r.b) {
			m.ReasonCode = r.u8("reason code")
			if r.i < len(r.b) {
				r.props(&m, int(typ))
			}
		}
	case model.SUBSCRIBE:
		m.PacketID = r.u16("packet identifier")
		r.props(&m, model.SUBSCRIBE)
		if r.err == nil && r.i == len(r.b) {
			r.fail("SUBSCRIBE without topic filter")
		}
		for r.err == nil && r.i < len(r.b) {
			var f model.Filter
			f.Filter = r.str("topic filter")
			f.Opts = r.u8("subscription options")
			if r.err == nil {
				if f.Opts&0xc0 != 0 {
					r.fail("reserved subscription option bits set")
				}
				if f.Opts&3 == 3 {
					r.fail("subscription QoS 3")
				}
				if (f.Opts>>4)&3 == 3 {
					r.fail("retain handling 3")
				}
				m.Filters = append(m.Filters, f)
			}
		}
	case model.SUBACK, model.UNSUBACK:
		m.PacketID = r.u16("packet identifier")
		r.props(&m, int(typ))
		if r.err == nil && r.i == len(r.b) {
			r.fail("%s without reason code", model.TypeNames[typ])
		}
		for r.err == nil && r.i < len(r.b) {
			m.ReasonCodes = append(m.ReasonCodes, r.u8("reason code"))
		}
	case model.UNSUBSCRIBE:
		m.PacketID = r.u16("packet identifier")
		r.props(&m, model.UNSUBSCRIBE)
		if r.err == nil && r.i == len(r.b) {
			r.fail("UNSUBSCRIBE without topic filter")
		}
		for r.err == nil && r.i < len(r.b) {
			m.UnsubFilters = append(m.UnsubFilters, r.str("topic filter"))
		}
	case model.PINGREQ, model.PINGRESP:
	case model.DISCONNECT:
		if len(r.b) > 0 {
			m.ReasonCode = r.u8("reason code")
			if r.i < len(r.b) {
				r.props(&m, model.DISCONNECT)
			}
		}
	case model.AUTH:
		if len(r.b) > 0 {
			m.ReasonCode = r.u8("reason code")
			r.props(&m, model.AUTH)
		}
	}
	if r.err == nil && r.i != len(r.b) {
		r.fail("%d bytes left over after the packet", len(r.b)-r.i)
	}
	pedNotes = r.ped
	if r.err != nil {
		return m, r.cls, fmt.Errorf("%s: %v", model.TypeNames[typ], r.err)
	}
	m.Normalize()
	return m, "", nil
}
