package ref

// Helpers that derive malformed frames from a valid one using the field map.

// Reframe builds a frame from a first byte and a body with a consistent,
// minimal remaining length.
func Reframe(first byte, body []byte) []byte {
	out := make([]byte, 0, len(body)+5)
	out = append(out, first)
	out = append(out, VBI(uint32(len(body)))...)
	return append(out, body...)
}

// Split returns the first byte, the header length and the body of a frame
// whose remaining-length field is well formed (it need not match len(body)).
func Split(frame []byte) (first byte, hdr int, body []byte, ok bool) {
	if len(frame) < 2 {
		return 0, 0, nil, false
	}
	_, n, err := DecodeVBI(frame[1:])
	if err != nil {
		return 0, 0, nil, false
	}
	return frame[0], 1 + n, frame[1+n:], true
}

// Cut describes a truncation point strictly inside a field.
type Cut struct {
	At   int    // number of frame bytes kept (frame coordinates)
	Kind Kind   // kind of the field that is cut
	Name string // name of the field
	Part string // "value", "prefix", "body", "id-value" (between identifier and value), "vbi"
}

// InsideFieldCuts lists every cut position that falls strictly inside a
// field: inside a two/four byte integer, inside a string/binary length
// prefix or body, inside a multi-byte variable byte integer, or inside a
// property after its identifier (between identifier and value, or inside
// the value). The raw PUBLISH payload (KRaw) has no inner structure and is
// exempt. Cuts inside the fixed header are not listed.
func InsideFieldCuts(spans []Span) []Cut {
	seen := map[int]bool{}
	var out []Cut
	add := func(at int, s Span, part string) {
		if seen[at] {
			return
		}
		seen[at] = true
		out = append(out, Cut{At: at, Kind: s.Kind, Name: s.Name, Part: part})
	}
	for _, s := range spans {
		switch s.Kind {
		case KU16, KU32:
			for k := s.Start + 1; k < s.End; k++ {
				add(k, s, "value")
			}
		case KStr, KBin:
			add(s.Start+1, s, "prefix")
			for k := s.Start + 2; k < s.End; k++ {
				if k > s.Start+2 {
					add(k, s, "body")
				}
			}
			if s.End-s.Start > 2 {
				add(s.Start+2, s, "body") // prefix complete, body entirely missing
			}
		case KVBI, KPropLen:
			for k := s.Start + 1; k < s.End; k++ {
				add(k, s, "vbi")
			}
		case KProp:
			// after the identifier, before/inside the value
			add(s.Start+1, s, "id-value")
		case KPair:
			// between key and value of a string pair: still inside the pair
			// (handled by the KStr kids for all other positions)
		}
	}
	// a KPair's boundary between key and value
	for _, s := range spans {
		if s.Kind != KPair {
			continue
		}
		for _, k := range spans {
			if k.Kind == KStr && k.Start == s.Start && k.End < s.End {
				add(k.End, s, "pair-middle")
			}
		}
	}
	return out
}

// LenField locates a length-carrying field inside a serialised frame.
type LenField struct {
	Start, End int
	Kind       Kind // KRemLen, KPropLen, KStr, KBin (2-byte prefix), KVBI
	Name       string
}

// LengthFields lists all length-carrying fields of the field map.
func LengthFields(spans []Span) []LenField {
	var out []LenField
	for _, s := range spans {
		switch s.Kind {
		case KRemLen, KPropLen, KVBI:
			out = append(out, LenField{s.Start, s.End, s.Kind, s.Name})
		case KStr, KBin:
			out = append(out, LenField{s.Start, s.Start + 2, s.Kind, s.Name})
		}
	}
	return out
}

// ReplaceBytes returns frame with [start,end) replaced by repl.
func ReplaceBytes(frame []byte, start, end int, repl []byte) []byte {
	out := make([]byte, 0, len(frame)-(end-start)+len(repl))
	out = append(out, frame[:start]...)
	out = append(out, repl...)
	return append(out, frame[end:]...)
}

// FixRemLen rewrites the remaining length of frame (whose header is hdr bytes
// long) so that it equals the number of body bytes.
func FixRemLen(frame []byte, hdr int) []byte {
	return Reframe(frame[0], frame[hdr:])
}

// MakeProp builds a well-typed property node for any defined identifier,
// with a value derived from seed (used to plant a property that is defined
// by MQTT but not allowed in the packet at hand).
func MakeProp(id byte, seed uint32) *Node {
	d, ok := PropTable[id]
	if !ok {
		return nil
	}
	name := "planted"
	switch d.typ {
	case tByte:
		return prop(id, name, leafByte(name, byte(seed&1)))
	case tU16:
		return prop(id, name, leafU16(name, uint16(seed)))
	case tU32:
		return prop(id, name, leafU32(name, seed))
	case tVBI:
		return prop(id, name, leafVBI(name, seed%268435455+1))
	case tStr:
		return prop(id, name, leafStr(name, "s"))
	case tBin:
		return prop(id, name, leafBin(name, []byte{byte(seed)}))
	default:
		return prop(id, name, pair(name, "k", "v"))
	}
}

// DefinedPropIDs lists the 27 identifiers MQTT v5.0 defines.
func DefinedPropIDs() []byte {
	var out []byte
	for i := 0; i < 256; i++ {
		if _, ok := PropTable[byte(i)]; ok {
			out = append(out, byte(i))
		}
	}
	return out
}

// AllowedIn reports whether property id may appear in packets of type typ
// (scope 16 = will properties).
func AllowedIn(id byte, scope int) bool {
	d, ok := PropTable[id]
	return ok && d.in&(1<<uint(scope)) != 0
}

// MakePropValue builds a property node for a defined identifier whose value
// is given by the caller for string / binary types (other types as MakeProp).
func MakePropValue(id byte, val []byte, seed uint32) *Node {
	d, ok := PropTable[id]
	if !ok {
		return nil
	}
	switch d.typ {
	case tStr:
		return prop(id, "repeated", leafStr("repeated", string(val)))
	case tBin:
		return prop(id, "repeated", leafBin("repeated", val))
	}
	return MakeProp(id, seed)
}

// AllowedProps lists the identifiers allowed in the given scope (packet type
// number, or 16 for will properties).
func AllowedProps(scope int) []byte {
	var out []byte
	for i := 0; i < 256; i++ {
		if AllowedIn(byte(i), scope) {
			out = append(out, byte(i))
		}
	}
	return out
}
