// Package ref is the independent reference codec, written from the OASIS
// MQTT v5.0 specification text. It shares no code, constants or tables with
// the library under test.
//
// The encoder builds a tree of nodes (so that tests can mutate structure:
// reorder, insert, truncate, re-serialise with recomputed lengths) and the
// serialiser also returns the field map (byte spans with their kind).
package ref

import (
	"encoding/binary"
	"sort"

	"verif/harness/model"
)

// Kind of a node / span.
type Kind int

const (
	KByte    Kind = iota // single byte
	KU16                 // two byte integer
	KU32                 // four byte integer
	KVBI                 // variable byte integer
	KStr                 // UTF-8 string: 2 byte length prefix + body
	KBin                 // binary data: 2 byte length prefix + body
	KRaw                 // raw bytes without structure (PUBLISH payload)
	KProps               // property section: length (VBI) + properties
	KProp                // one property: identifier byte + value
	KPair                // UTF-8 string pair (two KStr kids)
	KFirst               // first byte of the fixed header
	KRemLen              // remaining length field
	KPropLen             // property length field
)

var kindNames = map[Kind]string{KByte: "byte", KU16: "u16", KU32: "u32", KVBI: "vbi", KStr: "str", KBin: "bin", KRaw: "raw", KProps: "props", KProp: "prop", KPair: "pair", KFirst: "first", KRemLen: "remlen", KPropLen: "proplen"}

func (k Kind) String() string { return kindNames[k] }

// Node is one element of the frame tree.
type Node struct {
	Kind Kind
	Name string
	// Leaf content (already encoded, including a length prefix for KStr/KBin).
	B []byte
	// Children: KProps -> KProp...; KProp -> identifier (KByte) + value; KPair -> two KStr.
	Kids []*Node
	// RawLen, when non-nil on a KProps node, replaces the encoded property
	// length (used to plant over-long or stale lengths).
	RawLen []byte
	// PropID for KProp nodes.
	PropID byte
}

// Frame is a whole control packet as a tree.
type Frame struct {
	First byte
	Body  []*Node
	// RawRemLen, when non-nil, replaces the encoded remaining length.
	RawRemLen []byte
}

// Span is an entry of the field map.
type Span struct {
	Start, End int // byte offsets in the serialised frame, End exclusive
	Kind       Kind
	Name       string
	Depth      int
}

// VBI encodes a variable byte integer in its minimal form (spec 1.5.5).
func VBI(v uint32) []byte {
	var out []byte
	for {
		d := byte(v % 128)
		v /= 128
		if v > 0 {
			d |= 0x80
		}
		out = append(out, d)
		if v == 0 {
			return out
		}
	}
}

func leafByte(name string, v byte) *Node { return &Node{Kind: KByte, Name: name, B: []byte{v}} }
func leafU16(name string, v uint16) *Node {
	b := make([]byte, 2)
	binary.BigEndian.PutUint16(b, v)
	return &Node{Kind: KU16, Name: name, B: b}
}
func leafU32(name string, v uint32) *Node {
	b := make([]byte, 4)
	binary.BigEndian.PutUint32(b, v)
	return &Node{Kind: KU32, Name: name, B: b}
}
func leafVBI(name string, v uint32) *Node { return &Node{Kind: KVBI, Name: name, B: VBI(v)} }
func leafStr(name string, s string) *Node {
	b := make([]byte, 2+len(s))
	binary.BigEndian.PutUint16(b, uint16(len(s)))
	copy(b[2:], s)
	return &Node{Kind: KStr, Name: name, B: b}
}
func leafBin(name string, s []byte) *Node {
	b := make([]byte, 2+len(s))
	binary.BigEndian.PutUint16(b, uint16(len(s)))
	copy(b[2:], s)
	return &Node{Kind: KBin, Name: name, B: b}
}
func leafRaw(name string, s []byte) *Node {
	return &Node{Kind: KRaw, Name: name, B: append([]byte{}, s...)}
}

func prop(id byte, name string, value *Node) *Node {
	return &Node{Kind: KProp, Name: name, PropID: id, Kids: []*Node{leafByte(name+".id", id), value}}
}
func pair(name, k, v string) *Node {
	return &Node{Kind: KPair, Name: name, Kids: []*Node{leafStr(name+".key", k), leafStr(name+".value", v)}}
}
func boolByte(b bool) byte {
	if b {
		return 1
	}
	return 0
}

// Style selects among the many valid encodings of one abstract packet.
type Style struct {
	// PropKeys / WillPropKeys give sort keys for the properties (cyclic);
	// empty means the canonical order of the property tables below.
	PropKeys     []int
	WillPropKeys []int
	// ExplicitZero: property identifiers whose zero value is transmitted
	// explicitly (only honoured where the specification allows the value).
	ExplicitZero map[byte]bool
	// Form for packets with optional trailing sections:
	//   0 = shortest legal form, 1 = with reason code where legal,
	//   2 = always reason code + property length.
	Form int
}

// explicitZeroLegal lists the identifiers for which a transmitted zero /
// empty value is a legal value under the specification.
var explicitZeroLegal = map[byte]bool{
	0x01: true, // payload format indicator 0
	0x02: true, // message expiry interval 0
	0x03: true, // content type ""
	0x09: true, // correlation data (empty)
	0x11: true, // session expiry interval 0
	0x12: true, // assigned client identifier ""
	0x13: true, // server keep alive 0
	0x15: true, // authentication method ""
	0x17: true, // request problem information 0
	0x18: true, // will delay interval 0
	0x19: true, // request response information 0
	0x1a: true, // response information ""
	0x1c: true, // server reference ""
	0x1f: true, // reason string ""
	0x22: true, // topic alias maximum 0
	0x24: true, // maximum QoS 0
	0x25: true, // retain available 0
	0x28: true, // wildcard subscription available 0
	0x29: true, // subscription identifiers available 0
	0x2a: true, // shared subscription available 0
	// not legal when zero: 0x08 response topic (a topic name has >=1 char),
	// 0x0b subscription identifier, 0x16 auth data without method is handled
	// by the caller, 0x21 receive maximum, 0x23 topic alias, 0x27 maximum packet size.
}

type propBuilder struct {
	st    Style
	props []*Node
}

func (pb *propBuilder) want(id byte, zero bool) bool {
	if !zero {
		return true
	}
	return pb.st.ExplicitZero[id] && explicitZeroLegal[id]
}
func (pb *propBuilder) b(id byte, name string, v bool) {
	if pb.want(id, !v) {
		pb.props = append(pb.props, prop(id, name, leafByte(name, boolByte(v))))
	}
}
func (pb *propBuilder) u8(id byte, name string, v uint8) {
	if pb.want(id, v == 0) {
		pb.props = append(pb.props, prop(id, name, leafByte(name, v)))
	}
}
func (pb *propBuilder) u16(id byte, name string, v uint16) {
	if pb.want(id, v == 0) {
		pb.props = append(pb.props, prop(id, name, leafU16(name, v)))
	}
}
func (pb *propBuilder) u32(id byte, name string, v uint32) {
	if pb.want(id, v == 0) {
		pb.props = append(pb.props, prop(id, name, leafU32(name, v)))
	}
}
func (pb *propBuilder) str(id byte, name string, v string) {
	if pb.want(id, v == "") {
		pb.props = append(pb.props, prop(id, name, leafStr(name, v)))
	}
}
func (pb *propBuilder) bin(id byte, name string, v []byte) {
	if pb.want(id, len(v) == 0) {
		pb.props = append(pb.props, prop(id, name, leafBin(name, v)))
	}
}
func (pb *propBuilder) vbi(id byte, name string, v uint32) {
	pb.props = append(pb.props, prop(id, name, leafVBI(name, v)))
}
func (pb *propBuilder) user(kvs []model.KV) {
	for _, kv := range kvs {
		pb.props = append(pb.props, prop(0x26, "userprop", pair("userprop", kv.K, kv.V)))
	}
}

// section orders the collected properties by the style's keys. The relative
// order of repeated properties (user properties, subscription identifiers)
// is kept, since that order is significant.
func section(name string, props []*Node, keys []int) *Node {
	if len(keys) > 0 {
		type kp struct {
			n   *Node
			key int
			seq int
		}
		ks := make([]kp, len(props))
		lastRep := map[byte]int{}
		for i, p := range props {
			k := keys[i%len(keys)]
			if p.PropID == 0x26 || p.PropID == 0x0b {
				if l, ok := lastRep[p.PropID]; ok && k < l {
					k = l
				}
				lastRep[p.PropID] = k
			}
			ks[i] = kp{p, k, i}
		}
		sort.SliceStable(ks, func(i, j int) bool { return ks[i].key < ks[j].key })
		props = make([]*Node, len(ks))
		for i := range ks {
			props[i] = ks[i].n
		}
	}
	return &Node{Kind: KProps, Name: name, Kids: props}
}

// Tree builds the frame tree for an abstract packet in the given style.
func Tree(m *model.Packet, st Style) *Frame {
	f := &Frame{First: m.FirstByte()}
	pb := &propBuilder{st: st}
	switch m.Type {
	case model.CONNECT:
		flags := byte(0)
		if m.CleanStart {
			flags |= 0x02
		}
		if m.Will != nil {
			flags |= 0x04 | (m.Will.QoS&3)<<3
			if m.Will.Retain {
				flags |= 0x20
			}
		}
		if m.HasPassword {
			flags |= 0x40
		}
		if m.HasUsername {
			flags |= 0x80
		}
		pb.u32(0x11, "sessionexpiry", m.SessionExpiry)
		pb.u16(0x21, "receivemax", m.ReceiveMax)
		pb.u32(0x27, "maxpacketsize", m.MaxPacketSize)
		pb.u16(0x22, "topicaliasmax", m.TopicAliasMax)
		pb.b(0x19, "reqresponseinfo", m.RequestResponseInfo)
		pb.b(0x17, "reqprobleminfo", m.RequestProblemInfo)
		pb.user(m.UserProps)
		pb.str(0x15, "authmethod", m.AuthMethod)
		if len(m.AuthData) > 0 || (m.AuthMethod != "" && st.ExplicitZero[0x16]) {
			pb.props = append(pb.props, prop(0x16, "authdata", leafBin("authdata", m.AuthData)))
		}
		f.Body = append(f.Body,
			leafStr("protocolname", m.ProtocolName),
			leafByte("protocolversion", m.ProtocolVersion),
			leafByte("connectflags", flags),
			leafU16("keepalive", m.KeepAlive),
			section("props", pb.props, st.PropKeys),
			leafStr("clientid", m.ClientID),
		)
		if m.Will != nil {
			wb := &propBuilder{st: st}
			w := m.Will
			wb.u32(0x18, "willdelay", m.WillDelay)
			wb.b(0x01, "will.payloadformat", w.PayloadFormat)
			wb.u32(0x02, "will.expiry", w.MessageExpiry)
			wb.str(0x03, "will.contenttype", w.ContentType)
			wb.str(0x08, "will.responsetopic", w.ResponseTopic)
			wb.bin(0x09, "will.correlationdata", w.CorrelationData)
			wb.user(w.UserProps)
			f.Body = append(f.Body,
				section("willprops", wb.props, st.WillPropKeys),
				leafStr("will.topic", w.Topic),
				leafBin("will.payload", w.Payload),
			)
		}
		if m.HasUsername {
			f.Body = append(f.Body, leafStr("username", m.Username))
		}
		if m.HasPassword {
			f.Body = append(f.Body, leafBin("password", m.Password))
		}
	case model.CONNACK:
		pb.u32(0x11, "sessionexpiry", m.SessionExpiry)
		pb.u16(0x21, "receivemax", m.ReceiveMax)
		pb.u8(0x24, "maxqos", m.MaxQoS)
		pb.b(0x25, "retainavailable", m.RetainAvailable)
		pb.u32(0x27, "maxpacketsize", m.MaxPacketSize)
		pb.str(0x12, "assignedclientid", m.AssignedClientID)
		pb.u16(0x22, "topicaliasmax", m.TopicAliasMax)
		pb.str(0x1f, "reasonstring", m.ReasonString)
		pb.user(m.UserProps)
		pb.b(0x28, "wildcardsubavailable", m.WildcardSubAvail)
		pb.b(0x29, "subidsavailable", m.SubIDsAvail)
		pb.b(0x2a, "sharedsubavailable", m.SharedSubAvail)
		pb.u16(0x13, "serverkeepalive", m.ServerKeepAlive)
		pb.str(0x1a, "responseinformation", m.ResponseInformation)
		pb.str(0x1c, "serverreference", m.ServerReference)
		pb.str(0x15, "authmethod", m.AuthMethod)
		if len(m.AuthData) > 0 || (m.AuthMethod != "" && st.ExplicitZero[0x16]) {
			pb.props = append(pb.props, prop(0x16, "authdata", leafBin("authdata", m.AuthData)))
		}
		f.Body = append(f.Body,
			leafByte("ackflags", boolByte(m.SessionPresent)),
			leafByte("reasoncode", m.ReasonCode),
			section("props", pb.props, st.PropKeys),
		)
	case model.PUBLISH:
		f.Body = append(f.Body, leafStr("topicname", m.TopicName))
		if m.QoS > 0 {
			f.Body = append(f.Body, leafU16("packetid", m.PacketID))
		}
		pb.b(0x01, "payloadformat", m.PayloadFormat)
		pb.u32(0x02, "expiry", m.MessageExpiry)
		pb.u16(0x23, "topicalias", m.TopicAlias)
		pb.str(0x08, "responsetopic", m.ResponseTopic)
		pb.bin(0x09, "correlationdata", m.CorrelationData)
		pb.user(m.UserProps)
		for _, id := range m.SubIDs {
			pb.vbi(0x0b, "subid", id)
		}
		pb.str(0x03, "contenttype", m.ContentType)
		f.Body = append(f.Body, section("props", pb.props, st.PropKeys))
		if len(m.Payload) > 0 {
			f.Body = append(f.Body, leafRaw("payload", m.Payload))
		}
	case model.PUBACK, model.PUBREC, model.PUBREL, model.PUBCOMP:
		pb.str(0x1f, "reasonstring", m.ReasonString)
		pb.user(m.UserProps)
		f.Body = append(f.Body, leafU16("packetid", m.PacketID))
		switch {
		case len(pb.props) > 0 || st.Form >= 2:
			f.Body = append(f.Body, leafByte("reasoncode", m.ReasonCode), section("props", pb.props, st.PropKeys))
		case m.ReasonCode != 0 || st.Form == 1:
			f.Body = append(f.Body, leafByte("reasoncode", m.ReasonCode))
		}
	case model.SUBSCRIBE:
		if m.SubID > 0 {
			pb.vbi(0x0b, "subid", uint32(m.SubID))
		}
		pb.user(m.UserProps)
		f.Body = append(f.Body, leafU16("packetid", m.PacketID), section("props", pb.props, st.PropKeys))
		for _, fl := range m.Filters {
			f.Body = append(f.Body, leafStr("filter", fl.Filter), leafByte("options", fl.Opts))
		}
	case model.SUBACK, model.UNSUBACK:
		pb.str(0x1f, "reasonstring", m.ReasonString)
		pb.user(m.UserProps)
		f.Body = append(f.Body, leafU16("packetid", m.PacketID), section("props", pb.props, st.PropKeys))
		for _, c := range m.ReasonCodes {
			f.Body = append(f.Body, leafByte("reasoncode", c))
		}
	case model.UNSUBSCRIBE:
		pb.user(m.UserProps)
		f.Body = append(f.Body, leafU16("packetid", m.PacketID), section("props", pb.props, st.PropKeys))
		for _, fl := range m.UnsubFilters {
			f.Body = append(f.Body, leafStr("filter", fl))
		}
	case model.PINGREQ, model.PINGRESP:
	case model.DISCONNECT:
		pb.u32(0x11, "sessionexpiry", m.SessionExpiry)
		pb.str(0x1f, "reasonstring", m.ReasonString)
		pb.user(m.UserProps)
		pb.str(0x1c, "serverreference", m.ServerReference)
		switch {
		case len(pb.props) > 0 || st.Form >= 2:
			f.Body = append(f.Body, leafByte("reasoncode", m.ReasonCode), section("props", pb.props, st.PropKeys))
		case m.ReasonCode != 0 || st.Form == 1:
			f.Body = append(f.Body, leafByte("reasoncode", m.ReasonCode))
		}
	case model.AUTH:
		pb.str(0x15, "authmethod", m.AuthMethod)
		if len(m.AuthData) > 0 || (m.AuthMethod != "" && st.ExplicitZero[0x16]) {
			pb.props = append(pb.props, prop(0x16, "authdata", leafBin("authdata", m.AuthData)))
		}
		pb.str(0x1f, "reasonstring", m.ReasonString)
		pb.user(m.UserProps)
		if len(pb.props) > 0 || m.ReasonCode != 0 || st.Form >= 1 {
			f.Body = append(f.Body, leafByte("reasoncode", m.ReasonCode), section("props", pb.props, st.PropKeys))
		}
	case model.UNDEFINED:
		if len(m.Data) > 0 {
			f.Body = append(f.Body, leafRaw("data", m.Data))
		}
	}
	return f
}

func nodeLen(n *Node) int {
	switch n.Kind {
	case KProps:
		inner := 0
		for _, k := range n.Kids {
			inner += nodeLen(k)
		}
		if n.RawLen != nil {
			return len(n.RawLen) + inner
		}
		return len(VBI(uint32(inner))) + inner
	case KProp, KPair:
		l := 0
		for _, k := range n.Kids {
			l += nodeLen(k)
		}
		return l
	}
	return len(n.B)
}

func emit(n *Node, out []byte, spans *[]Span, depth int) []byte {
	start := len(out)
	switch n.Kind {
	case KProps:
		inner := 0
		for _, k := range n.Kids {
			inner += nodeLen(k)
		}
		lb := n.RawLen
		if lb == nil {
			lb = VBI(uint32(inner))
		}
		out = append(out, lb...)
		*spans = append(*spans, Span{start, len(out), KPropLen, n.Name + ".len", depth + 1})
		for _, k := range n.Kids {
			out = emit(k, out, spans, depth+1)
		}
	case KProp, KPair:
		for _, k := range n.Kids {
			out = emit(k, out, spans, depth+1)
		}
	default:
		out = append(out, n.B...)
	}
	*spans = append(*spans, Span{start, len(out), n.Kind, n.Name, depth})
	return out
}

// Bytes serialises the frame and returns the field map.
func (f *Frame) Bytes() ([]byte, []Span) {
	body := 0
	for _, n := range f.Body {
		body += nodeLen(n)
	}
	var spans []Span
	out := make([]byte, 0, body+5)
	out = append(out, f.First)
	spans = append(spans, Span{0, 1, KFirst, "first", 0})
	rl := f.RawRemLen
	if rl == nil {
		rl = VBI(uint32(body))
	}
	out = append(out, rl...)
	spans = append(spans, Span{1, len(out), KRemLen, "remaininglength", 0})
	for _, n := range f.Body {
		out = emit(n, out, &spans, 0)
	}
	return out, spans
}

// BodyOffset is the offset of the first body byte in the serialised frame.
func (f *Frame) BodyOffset() int {
	if f.RawRemLen != nil {
		return 1 + len(f.RawRemLen)
	}
	body := 0
	for _, n := range f.Body {
		body += nodeLen(n)
	}
	return 1 + len(VBI(uint32(body)))
}

// Encode is Tree + Bytes.
func Encode(m *model.Packet, st Style) ([]byte, []Span) {
	return Tree(m, st).Bytes()
}

// Canonical encodes with the default style (shortest forms, no explicit zeros).
func Canonical(m *model.Packet) []byte {
	b, _ := Encode(m, Style{})
	return b
}

// PropSections returns the property-section nodes of a frame (including the
// will property section of CONNECT).
func (f *Frame) PropSections() []*Node {
	var out []*Node
	for _, n := range f.Body {
		if n.Kind == KProps {
			out = append(out, n)
		}
	}
	return out
}
