// mutgen generates first-order mutants of the library's non-test sources
// (token-level operators) as patch files, for the systematic sensitivity run
// (tools/automut.sh). It is tooling, not part of any registered check.
package main

import (
	"bytes"
	"encoding/json"
	"flag"
	"fmt"
	"go/scanner"
	"go/token"
	"os"
	"os/exec"
	"path/filepath"
	"strings"
)

type mutant struct {
	ID       string `json:"id"`
	File     string `json:"file"`
	Line     int    `json:"line"`
	Original string `json:"original"`
	Mutated  string `json:"mutated"`
	Operator string `json:"operator"`
	Source   string `json:"source_line"`
}

var swaps = map[token.Token][]string{
	token.LSS:  {"<="},
	token.LEQ:  {"<"},
	token.GTR:  {">="},
	token.GEQ:  {">"},
	token.EQL:  {"!="},
	token.NEQ:  {"=="},
	token.LAND: {"||"},
	token.LOR:  {"&&"},
	token.ADD:  {"-"},
	token.SUB:  {"+"},
	token.MUL:  {"/"},
	token.QUO:  {"*"},
	token.REM:  {"/"},
	token.AND:  {"|"},
	token.OR:   {"&"},
	token.SHL:  {">>"},
	token.SHR:  {"<<"},
	token.ADD_ASSIGN: {"-="},
	token.SUB_ASSIGN: {"+="},
	token.OR_ASSIGN:  {"&="},
	token.AND_ASSIGN: {"|="},
	token.NOT:        {""},
}

func main() {
	repo := flag.String("repo", "/repo", "library checkout")
	out := flag.String("out", "/tmp/automut", "output directory")
	flag.Parse()
	files, _ := filepath.Glob(filepath.Join(*repo, "*.go"))
	n := 0
	for _, f := range files {
		base := filepath.Base(f)
		if strings.HasSuffix(base, "_test.go") || base == "verif_export.go" || base == "reasoncode_string.go" {
			continue
		}
		src, err := os.ReadFile(f)
		if err != nil {
			panic(err)
		}
		lines := strings.Split(string(src), "\n")
		fset := token.NewFileSet()
		file := fset.AddFile(f, fset.Base(), len(src))
		var s scanner.Scanner
		s.Init(file, src, nil, 0)
		emit := func(off, length int, repl, op string) {
			pos := fset.Position(file.Pos(off))
			mutated := append(append(append([]byte{}, src[:off]...), repl...), src[off+length:]...)
			n++
			id := fmt.Sprintf("a%04d", n)
			dir := filepath.Join(*out, id)
			_ = os.MkdirAll(dir, 0o755)
			tmp := filepath.Join(dir, base)
			_ = os.WriteFile(tmp, mutated, 0o644)
			cmd := exec.Command("diff", "-u", "--label", "a/"+base, "--label", "b/"+base, f, tmp)
			var buf bytes.Buffer
			cmd.Stdout = &buf
			_ = cmd.Run()
			_ = os.WriteFile(filepath.Join(dir, "patch.diff"), buf.Bytes(), 0o644)
			_ = os.Remove(tmp)
			m := mutant{ID: id, File: base, Line: pos.Line, Original: string(src[off : off+length]), Mutated: repl, Operator: op, Source: strings.TrimSpace(lines[pos.Line-1])}
			b, _ := json.MarshalIndent(m, "", " ")
			_ = os.WriteFile(filepath.Join(dir, "meta.json"), b, 0o644)
		}
		for {
			pos, tok, lit := s.Scan()
			if tok == token.EOF {
				break
			}
			off := file.Offset(pos)
			line := lines[fset.Position(pos).Line-1]
			trim := strings.TrimSpace(line)
			if strings.HasPrefix(trim, "fmt.Fprintf(w,") || strings.HasPrefix(trim, "import") {
				continue
			}
			if reps, ok := swaps[tok]; ok {
				for _, r := range reps {
					if tok == token.MUL && (strings.Contains(line, "func (") || strings.Contains(line, "*Malformed") || strings.Contains(line, " *") && !strings.Contains(line, " * ")) {
						continue // pointer star, not multiplication
					}
					if tok == token.AND && !strings.Contains(line, " & ") {
						continue // address-of
					}
					emit(off, len(tok.String()), r, "swap "+tok.String())
				}
			}
			switch tok {
			case token.INT:
				var reps []string
				switch lit {
				case "0":
					reps = []string{"1"}
				case "1":
					reps = []string{"0", "2"}
				case "2":
					reps = []string{"1", "3"}
				default:
					reps = []string{lit + " + 1", lit + " - 1"}
				}
				if strings.Contains(trim, "Ident = 0x") || strings.Contains(trim, "ReasonCode = 0x") {
					reps = reps[:1]
				}
				for _, r := range reps {
					emit(off, len(lit), "("+r+")", "int literal")
				}
			case token.IDENT:
				if lit == "true" {
					emit(off, 4, "false", "bool literal")
				}
				if lit == "false" {
					emit(off, 5, "true", "bool literal")
				}
			}
		}
		// statement-level: delete accumulation statements, neutralise error returns, drop break/continue
		off := 0
		for i, l := range lines {
			t := strings.TrimSpace(l)
			del := false
			switch {
			case strings.HasPrefix(t, "i += ") && strings.HasSuffix(t, ")"):
				del = true
			case strings.HasPrefix(t, "b.get(") || strings.HasPrefix(t, "get(") || strings.HasPrefix(t, "buf.getAny(") || strings.HasPrefix(t, "b.getAny("):
				del = true
			case strings.HasPrefix(t, "p.flags.toggle(") || strings.HasPrefix(t, "p.fixed.toggle("):
				del = true
			case t == "break" || t == "continue":
				del = true
			case strings.HasPrefix(t, "copy("):
				del = true
			}
			if del {
				// replace the statement by an empty statement of the same extent
				start := off + strings.Index(l, t)
				emit(start, len(t), "_ = 0", "delete statement")
			}
			if strings.HasPrefix(t, "return ") && (strings.Contains(t, "err") || strings.Contains(t, "newMalformed") || strings.Contains(t, "unmarshalErr") || strings.Contains(t, "Errorf")) && !strings.Contains(t, ",") {
				start := off + strings.Index(l, t)
				emit(start, len(t), "return nil", "return nil")
			}
			_ = i
			off += len(l) + 1
		}
	}
	fmt.Println("mutants:", n)
}
