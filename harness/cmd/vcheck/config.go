package main

import (
	"context"
	"encoding/hex"
	"encoding/json"
	"fmt"
	"os"
	"os/exec"
	"path/filepath"
	"regexp"
	"strconv"
	"strings"
	"time"
)

var commonAssumptions = []string{
	"pgregory.net/rapid v1.3.0 generates and shrinks as documented; seeds derived from VERIF_SEED",
	"Go runtime, compiler and standard library",
	"exploration only: absence of violations outside the explored cases is not established",
}

var refAssumption = "the reference codec /verif/harness/ref (hand-written from the OASIS MQTT v5.0 text, shares no code or constants with the library; self-checked encode->strict-decode in every run)"

func q(d time.Duration) time.Duration { return d }

var props = map[string]propCfg{
	"C01": {QuickShards: 8, ThoroughShards: 16, Level: "exploration",
		Rule:        "rapid generators draw an abstract packet of each of the 15 types (every optional field independently present/absent, boundary-biased lengths 0,1,127,128,16383,16384,65534,65535, PUBLISH payload and property section padded to length boundaries, correlated fields, shaped lists) plus how it is built: setter call order, zero setters called or skipped, decoy calls (same setter first with another value), repeated identical calls, read-only probes between calls, caller-owned variadic slices reused afterwards, a value copy (q := *p) at some step, several user properties per variadic call, filters edited in place, and a prelude of unrelated decodes; oracle = WriteTo->ReadPacket round trip compared accessor by accessor with the model and byte-identical re-encoding, and for a third of the cases a second generation (the decoded packet changed through one public setter, written and read again). Non-trivial = at least one optional field present, or a boundary length, or a list with >= 2 elements; distinct = 64-bit FNV fingerprint of (model, call plan).",
		Assumptions: commonAssumptions},
	"C02": {QuickShards: 8, ThoroughShards: 16, Level: "exploration",
		Rule:        "C01 generators restricted to MQTT-well-formed packets; oracle = differential: the independent strict decoder must accept the library's frame and read back exactly the model (absent property = zero value). Non-trivial = frame carries >= 1 property, or a will, or a multi-byte remaining/property length; distinct = fingerprint of the frame.",
		Assumptions: append([]string{refAssumption}, commonAssumptions...)},
	"C03": {QuickShards: 8, ThoroughShards: 16, Level: "exploration", Fuzz: []string{"FuzzValidFrame"}, FuzzTime: 150 * time.Second,
		Rule:        "frames produced by the reference encoder from spec-valid abstract packets in generated styles (property order, explicit zero-valued properties, short forms); oracle = ReadPacket accepts and accessors equal the model. Non-trivial = frame differs from what the library's own encoder emits for the same model; distinct = fingerprint of the frame.",
		Assumptions: append([]string{refAssumption}, commonAssumptions...)},
	"C04": {QuickShards: 8, ThoroughShards: 16, Level: "exploration", Fuzz: []string{"FuzzReadPacket", "FuzzUnmarshal"}, FuzzTime: 150 * time.Second,
		Rule:        "byte strings from eight generators (steered arbitrary bytes, prefixes of valid frames, valid frames with one length field raised/lowered, every type nibble on foreign bodies, CONNECT of another protocol, a defined property in the wrong packet, a property repeated within a section, byte-level mutations) through ReadPacket (contiguous and fragmented readers) and UnmarshalBinary of all 16 exported types; oracle = returns normally and exactly one of packet/error is nil. Non-trivial = input rejected, or accepted but not identical to a library-encoded frame; distinct = fingerprint of (entry point, bytes).",
		Assumptions: commonAssumptions},
	"C05": {QuickShards: 8, ThoroughShards: 16, Level: "exploration", Fuzz: []string{"FuzzDecodeBounded"}, FuzzTime: 150 * time.Second,
		Rule:        "C04-style byte strings weighted towards repeated sections (filter lists, reason-code lists, property lists, subscription identifiers) truncated / empty / inconsistent / very long; oracle = the call returns (watchdog, confirmed alone in a fresh process; complete frames also on a stream that stays open), bytes allocated <= 1 MiB + 512 x frame size, no list of a returned packet has more elements than the frame has bytes, packets returned earlier (last 8 + one sentinel per type) do not change, a 32x longer list / payload / string costs <= 200x the thread CPU time and <= 200x the allocated bytes (13 kinds), a frame with an inflated inner length allocates no more than the intact frame + 16 KiB + 64 x size, and a small frame allocates the same before and right after a huge one. Non-trivial = frame reaches a repeated section and is malformed there, or has >= 256 list elements; distinct = fingerprint of the frame.",
		Assumptions: append([]string{"allocation is metered with runtime.MemStats.TotalAlloc around a single-goroutine call", "hang threshold 10 s / 1 GiB heap per call, re-confirmed alone"}, commonAssumptions...)},
	"C06": {QuickShards: 8, ThoroughShards: 16, Level: "exploration",
		Rule:        "sequences of 1..8 frames (valid frames from both encoders, content-malformed frames, zero-length frames) followed by arbitrary trailing bytes on one counting reader offered as scripted reader, bytes.Reader, bytes.Buffer, bufio.Reader or a reader with a chunk-wise Len(), a reader with SetReadDeadline whose peer is (virtually) slow, a bufio.Reader reused after a timeout, contiguous / bytewise / with a long run of empty reads / last bytes with io.EOF / stream staying open, after a prelude of unrelated (also truncated) reads, optionally changing every returned packet before the next call; oracle = after every call exactly the bytes of the frames so far were consumed (frame length from the reference framing parser), every result equals the result of reading that frame alone before the stream was touched (PUBLISH frames using / defining a few topic aliases included), every returned packet and error is looked at again after the whole stream was read, then io.EOF. Non-trivial = >= 2 frames and a rejected or zero-length frame that is not last; distinct = fingerprint of the stream.",
		Assumptions: append([]string{refAssumption}, commonAssumptions...)},
	"C07": {QuickShards: 8, ThoroughShards: 16, Level: "exploration",
		Rule:        "frames x delivery schedules allowed by io.Reader (all compositions of the frame length for short frames, generated schedules with zero-length reads (also runs of 5..1000) and data+EOF endings for long ones up to 32 MiB, optionally behind another frame on the same stream with a read boundary inside the next header) x concrete reader types; oracle = metamorphic: same packet (accessors and re-encoding) or same rejection as one contiguous read. Non-trivial = schedule splits the body or the remaining-length field, contains a (0,nil) read, or ends with data+EOF; distinct = fingerprint of (frame, schedule).",
		Assumptions: commonAssumptions},
	"C08": {QuickShards: 8, ThoroughShards: 16, Level: "fault_enumeration",
		Rule:        "frames x every cut offset k in [0,len) (all k for frames <= 512 bytes) x failure kind (EOF, a fresh error value, io.ErrUnexpectedEOF itself, errors wrapping io.EOF / io.ErrUnexpectedEOF, timeout, deadline, closed pipe, net.ErrClosed, *net.OpError, errors wrapping those, errors.Join, Errno, an error with its own Is method; sticky or reported once; alone or together with the last bytes) x delivery of the prefix x reader type; oracle = nil packet and non-nil error, errors.Is(err, injected), errors.Is(err, io.EOF) at k = 0, and a packet only when every byte was delivered. Non-trivial = k inside the body; distinct = fingerprint of (frame, k, failure kind, delivery).",
		Assumptions: commonAssumptions},
	"C09": {QuickShards: 8, ThoroughShards: 16, Level: "exploration", Fuzz: []string{"FuzzMustReject"}, FuzzTime: 150 * time.Second,
		Rule:        "valid frames from the reference encoder x (a) every cut strictly inside a field per the reference field map with remaining length patched, (b) each variable byte integer replaced by a 5-byte continuation, (c) each of the seven boolean properties x values 2..255, (d) each property position x all 229 undefined identifiers; oracle = ReadPacket returns (nil, error); each constructed frame is also classified from its bytes alone by the reference decoder (agreement counted under coverage.classes). Every mutated frame is non-trivial; distinct = fingerprint of the mutated frame.",
		Assumptions: append([]string{refAssumption}, commonAssumptions...)},
	"C10": {QuickShards: 8, ThoroughShards: 16, Level: "exploration",
		Rule:        "C01 packets plus malformed-but-constructible ones x writers that succeed, fail before accepting anything, or accept exactly k bytes (every k for frames <= 256 bytes), optionally with WriteByte / WriteString / ReadFrom, plus bytes.Buffer / bufio.Writer (empty or already holding bytes) and strings.Builder; oracle = bytes seen are exactly one frame under the reference framing parser, returned n = bytes accepted = 'N bytes' in String(), writer errors are returned with n = k, Undefined writes nothing. Non-trivial = multi-byte remaining/property length, optional section present, or a faulting writer; distinct = fingerprint of (frame, writer).",
		Assumptions: append([]string{refAssumption}, commonAssumptions...)},
	"C11": {QuickShards: 8, ThoroughShards: 16, Level: "exploration",
		Rule:        "C01 packets weighted to CONNECT with several will properties x interleavings of read-only operations between >= 16 encodings, 70 000 encodings of one packet per type in one process, encodings before and after a 1.2 s pause, plus encodings of the same case list in several fresh processes; oracle = all encodings byte-equal and accessor snapshot unchanged. Non-trivial = encoder emits >= 2 will properties or >= 3 read-only operations interleaved; distinct = fingerprint of (model, operation list).",
		Assumptions: append([]string{"Go randomises map iteration per range statement and hash seeds per process"}, commonAssumptions...)},
	"C12": {QuickShards: 8, ThoroughShards: 16, Level: "exploration",
		Rule:        "state-machine sequences of public setter/adder calls with boundary-biased arguments on a fresh packet of each type, (bursts of one setter, occasional 2 MiB payloads, one reused TopicFilter variable) compared after every step with a record-of-fields model (including derived flags); after (almost) every step the encoded frame is read by the strict reference decoder, and a second packet that was handed the same argument slices must keep them. Non-trivial = a setter called twice with different values or reset to zero after non-zero; distinct = fingerprint of the call sequence.",
		Assumptions: append([]string{refAssumption}, commonAssumptions...)},
	"C13": {Race: true, QuickShards: 8, ThoroughShards: 16, Level: "exploration",
		Rule:        "packets of every type built from the constructor or the zero value, or decoded (CONNECT sharing its will with direct use) x 2..8 goroutines running generated lists of read-only operations from a common barrier, under the Go race detector; oracle = no race report and every concurrent WriteTo equals the sequential bytes. Non-trivial = >= 2 goroutines with a WriteTo in one and a different operation in another; distinct = fingerprint of (model, operation lists).",
		Assumptions: append([]string{"Go race detector (happens-before; no false positives, finds races on executed paths)"}, commonAssumptions...)},
	"C14": {QuickShards: 8, ThoroughShards: 16, Level: "exploration",
		Rule:        "state-machine histories over a pool of packets and the byte slices they were decoded from: decode (UnmarshalBinary from a retained slice, ReadPacket from a reused buffer), scribble over a retained slice, encode, apply a setter, hand a value returned by an accessor of one packet to a setter of another (or of a new packet of that type) and go on setting both, decode the same frame again (twin append), decode into a value already in the pool, attach a pool PUBLISH as a will, read through one pooled bufio.Reader (also after a timeout); oracle = every packet not named by the action keeps its accessor snapshot and repeated decodes of a frame observe equal. Non-trivial = a scribble after decoding a frame with a non-empty string/binary/raw field with >= 2 live packets; distinct = fingerprint of the history.",
		Assumptions: commonAssumptions},
	"C15": {QuickShards: 1, ThoroughShards: 1, Level: "exploration", ThoroughTO: 90 * time.Minute,
		Rule:        "variable byte integers through the verif-tagged wrappers: values (thorough: all 2^28; quick: boundary neighbourhoods + stride sweep) encoded and compared with the reference minimal form, decoded by both decoders (value, bytes consumed); byte sequences (thorough: all of length <= 4 and all 2^28 continuation prefixes x 5 fifth bytes; quick: all of length <= 2 + drawn longer ones) for decoder agreement and rejection; at the use sites: property lengths 2 097 151..2 097 153 written and read back, remaining lengths 268 435 450 and 268 435 455 written through WriteTo. Non-trivial = value needing >= 2 bytes or a sequence that must be rejected; distinct = the value / sequence itself.",
		Assumptions: append([]string{"hook verif_export.go exposes the unexported codec unchanged", refAssumption}, commonAssumptions...)},
	"C16": {QuickShards: 1, ThoroughShards: 4, Level: "exploration",
		Rule:        "all 256 first bytes x bodies valid for the selected type from the reference encoder (incl. remaining length 0 where allowed; a quarter of the bodies unconstrained, judged only when a packet is returned); oracle = dynamic type by table on the high nibble, PUBLISH DUP/QoS/RETAIN equal the bits, re-encoding reproduces the first byte, Undefined carries the body. Non-trivial = low nibble differs from the constructor default; distinct = fingerprint of the frame.",
		Assumptions: append([]string{refAssumption}, commonAssumptions...)},
	"C17": {QuickShards: 8, ThoroughShards: 16, Level: "exploration",
		Rule:        "Publish over the complete condition cube topic x alias x QoS 0..3 x packet id plus generated other fields; Subscribe over filter count, subscription identifier around 268435455, all 256 option bytes, empty/non-empty filters; built through the API and decoded from the wire, stand-alone, after being passed to Connect.SetWill, as the Will() of a decoded CONNECT, with zero values made explicit, and decoded into a value that was used and rendered before; oracle = reference predicate from the statement equals error-ness of WellFormed and presence of the 'malformed!' suffix in String(). Non-trivial = accepting side of one condition while another field is at a suspicious value; distinct = fingerprint of the case.",
		Assumptions: commonAssumptions},
	"C18": {QuickShards: 8, ThoroughShards: 16, Level: "exploration",
		Rule:        "CONNECT models (with/without will, properties, auth fields) x pairs of equally long non-empty credential values incl. values copied from other fields, built through the API (also with placeholder credentials first) and decoded from frames (also followed by the setters, or into a value reused for an anonymous frame), method names from a dictionary, occasionally user names beyond 65 535 bytes; oracle = non-interference: Dump and String identical for both. Non-trivial = credentials differ in >= 1 byte; distinct = fingerprint of (model, credential pair).",
		Assumptions: commonAssumptions},
	"C19": {QuickShards: 8, ThoroughShards: 16, Level: "exploration",
		Rule:        "zero values and constructor values of every exported type, packets under construction (prefixes of setter sequences, then calls whose Go parameter type is wider than the MQTT range, e.g. SetSubscriptionID(-1), SetQoS(200)), packets decoded from arbitrary bytes (and half-filled values left by failing decodes), reason strings related to reason-code names, Dump(w, nil), all 256 values of each rendered byte; oracle = String and Dump return normally. Non-trivial = value not obtainable from a constructor plus the unit tests' setter order (decoded, half-built, out-of-table byte); distinct = fingerprint of the value's origin.",
		Assumptions: commonAssumptions},
}

func init() {
	for k, c := range props {
		if c.QuickTimeout == 0 {
			c.QuickTimeout = 8 * time.Minute
		}
		if c.ThoroughTO == 0 {
			c.ThoroughTO = 60 * time.Minute
		}
		if c.FuzzTime == 0 {
			c.FuzzTime = 60 * time.Second
		}
		props[k] = c
	}
}

var fuzzExecRe = regexp.MustCompile(`execs: (\d+)`)
var fuzzFailRe = regexp.MustCompile(`Failing input written to (\S+)`)
var byteLitRe = regexp.MustCompile(`(?s)\[\]byte\((.*)\)\s*$`)

// runFuzz runs one native coverage-guided fuzz target for the given time.
// A crasher is converted into a replay file case (entry point + frame).
func runFuzz(prop, target string, d time.Duration, work string) (string, int64, []failure) {
	ctx, cancel := context.WithTimeout(context.Background(), d+3*time.Minute)
	defer cancel()
	cmd := exec.CommandContext(ctx, "go", "test", "-tags", "verif", "-run", "^$", "-fuzz", "^"+target+"$",
		"-fuzztime", d.String(), "./props")
	cmd.Dir = filepath.Join(root, "harness")
	cmd.Env = env()
	out, err := cmd.CombinedOutput()
	var execs int64
	for _, m := range fuzzExecRe.FindAllStringSubmatch(string(out), -1) {
		v, _ := strconv.ParseInt(m[1], 10, 64)
		if v > execs {
			execs = v
		}
	}
	note := fmt.Sprintf("%s: %v, %d execs", target, d, execs)
	note += corpusStats(target)
	if err == nil {
		return note + ", no crasher", execs, nil
	}
	m := fuzzFailRe.FindStringSubmatch(string(out))
	if m == nil {
		return note + ", INFRA: go test -fuzz failed without a crasher: " + tail(string(out), 8), execs, nil
	}
	p := filepath.Join(root, "harness", "props", m[1])
	data, _ := os.ReadFile(p)
	var frame []byte
	lines := strings.SplitN(string(data), "\n", 2)
	if len(lines) == 2 {
		if bm := byteLitRe.FindStringSubmatch(strings.TrimSpace(lines[1])); bm != nil {
			if s, err := strconv.Unquote(bm[1]); err == nil {
				frame = []byte(s)
			}
		}
	}
	_ = os.Remove(p)
	c, _ := json.Marshal(map[string]string{"frame": hex.EncodeToString(frame), "entry": target})
	f := failure{Property: prop, Kind: "fuzz", Case: c, Signature: "fuzz:" + target,
		Message: "native fuzz target " + target + " found a crasher:\n" + tail(string(out), 30)}
	return note + ", CRASHER", execs, []failure{f}
}

var corpusLineRe = regexp.MustCompile(`CORPUS target=\S+ (entries=\d+ in_domain=\d+ kinds=.*)`)

// corpusStats asks the harness how many entries of the corpus the fuzzer kept
// (the go build cache's fuzz directory, cumulative over campaigns) lie in the
// domain of the target's oracle.
func corpusStats(target string) string {
	gc := exec.Command("go", "env", "GOCACHE")
	gc.Env = env()
	out, err := gc.Output()
	if err != nil {
		return ""
	}
	dir := filepath.Join(strings.TrimSpace(string(out)), "fuzz", "verif", "harness", "props", target)
	cmd := exec.Command("go", "test", "-tags", "verif", "-count=1", "-v", "-run", "^TestCorpusStats$", "./props")
	cmd.Dir = filepath.Join(root, "harness")
	cmd.Env = append(env(), "VERIF_CORPUS="+dir, "VERIF_CORPUS_TARGET="+target)
	o, _ := cmd.CombinedOutput()
	if m := corpusLineRe.FindStringSubmatch(string(o)); m != nil {
		return ", kept corpus (cumulative): " + m[1] + " (in_domain = entries inside the domain of the target's oracle)"
	}
	return ""
}
