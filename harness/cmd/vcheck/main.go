// vcheck is the driver behind /verif/check: it rebuilds the property tests
// against /repo's working tree, runs one property's test in parallel shards,
// confirms watchdog reports in a fresh child, merges the shard results into
// /verif/evidence/<id>.json and prints VIOLATION / KNOWN-FINDING lines.
//
// Exit status: 0 property held on everything explored; 1 violation (with a
// "VIOLATION property=<id> replay=<path>" line); 2 infrastructure problem
// (build failure, timeout, worker death without a reproducible case).
package main

import (
	"bytes"
	"context"
	"encoding/binary"
	"encoding/json"
	"flag"
	"fmt"
	"os"
	"os/exec"
	"path/filepath"
	"sort"
	"strconv"
	"strings"
	"sync"
	"syscall"
	"time"
)

const root = "/verif"

type propCfg struct {
	Race           bool
	QuickShards    int
	ThoroughShards int
	QuickTimeout   time.Duration
	ThoroughTO     time.Duration
	Fuzz           []string // native fuzz targets run in the thorough tier
	FuzzTime       time.Duration
	Level          string
	Rule           string
	Assumptions    []string
}

type shardResult struct {
	Property    string            `json:"property"`
	Evaluations int64             `json:"evaluations"`
	BulkNT      int64             `json:"bulk_distinct_nontrivial"`
	Classes     map[string]int64  `json:"classes"`
	Samples     []json.RawMessage `json:"samples"`
	Excluded    map[string]int64  `json:"excluded"`
	Notes       []string          `json:"notes"`
	Exhaustive  []string          `json:"exhaustive"`
	Runs        []json.RawMessage `json:"rapid_runs"`
	Failures    []failure         `json:"failures"`
	Replayed    int               `json:"replayed"`
	Incomplete  bool              `json:"incomplete"`
	WallS       float64           `json:"wall_s"`
}

type failure struct {
	Property  string          `json:"property"`
	Kind      string          `json:"kind"`
	Case      json.RawMessage `json:"case"`
	Message   string          `json:"message"`
	Signature string          `json:"signature,omitempty"`
	Source    string          `json:"source,omitempty"`
}

type finding struct {
	Status    string `json:"status"` // "open" | "fixed"
	Property  string `json:"property"`
	Signature string `json:"signature,omitempty"`
	Commit    string `json:"commit,omitempty"`
	What      string `json:"what"`
}

func env() []string {
	e := os.Environ()
	e = append(e, "GOFLAGS=-mod=mod", "GOPROXY=off", "GOSUMDB=off", "GOTOOLCHAIN=local", "GONOSUMDB=*", "GONOSUMCHECK=1", "GORACE=halt_on_error=1")
	return e
}

func die(code int, format string, a ...interface{}) {
	fmt.Fprintf(os.Stderr, format+"\n", a...)
	os.Exit(code)
}

func main() {
	prop := flag.String("prop", "", "property id, e.g. C01")
	tier := flag.String("tier", "quick", "quick | thorough")
	replay := flag.String("replay", "", "replay one file")
	seedFlag := flag.Uint64("seed", 0, "seed (default: $VERIF_SEED or 1)")
	scale := flag.Float64("scale", 1, "multiplier on case counts")
	keep := flag.Bool("keep", false, "keep the work directory")
	flag.Parse()
	if *prop == "" {
		die(2, "usage: vcheck -prop C01 [-tier quick|thorough] [-replay file]")
	}
	cfg, ok := props[*prop]
	if !ok {
		die(2, "unknown property %s", *prop)
	}
	seed := *seedFlag
	if seed == 0 {
		if s := os.Getenv("VERIF_SEED"); s != "" {
			v, err := strconv.ParseUint(strings.TrimSpace(s), 10, 64)
			if err != nil {
				// non-numeric seeds are hashed
				for _, c := range s {
					v = v*131 + uint64(c)
				}
			}
			seed = v
		}
	}
	if seed == 0 {
		seed = 1
	}
	if t := os.Getenv("VERIF_TIER"); t != "" && *tier == "" {
		*tier = t
	}
	start := time.Now()

	// ---- build from /repo's working tree
	buildDir := filepath.Join(root, ".build")
	_ = os.MkdirAll(buildDir, 0o755)
	// Tooling only (sensitivity runs on scratch copies): VERIF_REPO selects
	// another checkout of the library through an alternative go.mod. The
	// registered commands never set it and always build /repo.
	suffix, modfile := "", ""
	if alt := os.Getenv("VERIF_REPO"); alt != "" && alt != "/repo" {
		suffix = fmt.Sprintf("-%x", hash([]byte(alt)))
		modfile = filepath.Join(buildDir, "alt"+suffix+".mod")
		gm, err := os.ReadFile(filepath.Join(root, "harness", "go.mod"))
		if err != nil {
			die(2, "go.mod: %v", err)
		}
		_ = os.WriteFile(modfile, []byte(strings.Replace(string(gm), "=> /repo", "=> "+alt, 1)), 0o644)
		if gs, err := os.ReadFile(filepath.Join(root, "harness", "go.sum")); err == nil {
			_ = os.WriteFile(strings.TrimSuffix(modfile, ".mod")+".sum", gs, 0o644)
		}
	}
	bin := filepath.Join(buildDir, "props"+suffix+".test")
	args := []string{"test", "-c", "-tags", "verif", "-o", bin}
	if cfg.Race {
		bin = filepath.Join(buildDir, "props"+suffix+".race.test")
		args = []string{"test", "-c", "-race", "-tags", "verif", "-o", bin}
	}
	if modfile != "" {
		args = append(args, "-modfile="+modfile)
	}
	args = append(args, "./props")
	bc := exec.Command("go", args...)
	bc.Dir = filepath.Join(root, "harness")
	bc.Env = env()
	if out, err := bc.CombinedOutput(); err != nil {
		fmt.Printf("BUILD-FAILED property=%s\n%s\n", *prop, out)
		os.Exit(2)
	}

	work, err := os.MkdirTemp(filepath.Join(root, ".work"), *prop+"-")
	if err != nil {
		_ = os.MkdirAll(filepath.Join(root, ".work"), 0o755)
		work, err = os.MkdirTemp(filepath.Join(root, ".work"), *prop+"-")
		if err != nil {
			die(2, "work dir: %v", err)
		}
	}
	if !*keep {
		defer os.RemoveAll(work)
	}

	shards := cfg.QuickShards
	timeout := cfg.QuickTimeout
	if *tier == "thorough" {
		shards = cfg.ThoroughShards
		timeout = cfg.ThoroughTO
	}
	if shards < 1 {
		shards = 1
	}
	if *replay != "" {
		shards = 1
	}
	ctx, cancel := context.WithTimeout(context.Background(), timeout)
	defer cancel()

	type shardOut struct {
		code int
		log  string
	}
	outs := make([]shardOut, shards)
	var wg sync.WaitGroup
	shardArgs := func(i int) []string {
		a := []string{
			"-test.run", "^Test" + *prop + "$", "-test.timeout=0", "-test.count=1", "-test.v",
			"-vf.tier=" + *tier, "-vf.seed=" + strconv.FormatUint(seed, 10),
			"-vf.shard=" + strconv.Itoa(i), "-vf.shards=" + strconv.Itoa(shards),
			"-vf.out=" + work, "-vf.scale=" + strconv.FormatFloat(*scale, 'g', -1, 64),
			"-vf.replays=" + filepath.Join(root, "replays", *prop),
		}
		if *replay != "" {
			a = append(a, "-vf.replay="+*replay)
		}
		return a
	}
	for i := 0; i < shards; i++ {
		wg.Add(1)
		go func(i int) {
			defer wg.Done()
			outs[i].code, outs[i].log = run(ctx, bin, shardArgs(i), work)
		}(i)
	}
	wg.Wait()
	timedOut := ctx.Err() != nil

	// ---- native fuzz campaigns (thorough tier only)
	var fuzzNotes, fuzzInfra []string
	var fuzzExecs int64
	var failures []failure
	if *tier == "thorough" && *replay == "" && !timedOut {
		for _, target := range cfg.Fuzz {
			note, execs, fl := runFuzz(*prop, target, cfg.FuzzTime, work)
			fuzzNotes = append(fuzzNotes, note)
			if strings.Contains(note, "INFRA:") {
				fuzzInfra = append(fuzzInfra, note)
			}
			fuzzExecs += execs
			failures = append(failures, fl...)
		}
	}

	// ---- collect
	infra := append([]string{}, fuzzInfra...)
	merged := shardResult{Classes: map[string]int64{}, Excluded: map[string]int64{}}
	var fps []uint64
	for i := 0; i < shards; i++ {
		base := filepath.Join(work, fmt.Sprintf("%s.shard%d", *prop, i))
		code := outs[i].code
		if code == 3 { // watchdog
			inflight := filepath.Join(work, fmt.Sprintf("%s.shard%d.inflight.json", *prop, i))
			why, _ := os.ReadFile(strings.TrimSuffix(inflight, ".json") + ".why")
			if len(failures) > 0 {
				continue // a violation is already established; no need to re-run more shards
			}
			f, confirmed, note := confirmHang(bin, inflight, work, *prop)
			if confirmed {
				failures = append(failures, f)
				continue
			}
			// The limit was exceeded once but the case returns when it runs
			// alone: a loaded machine, not the library. Not a verdict. The
			// shard is run again (same seed, same cases), now that the other
			// shards have finished; only if the watchdog fires again does the
			// check end as inconclusive.
			fmt.Printf("NOTE property=%s shard %d: watchdog fired (%s) but the case did not reproduce alone (%s); running the shard again\n", *prop, i, strings.TrimSpace(string(why)), note)
			firstCase, _ := os.ReadFile(inflight)
			_ = os.Remove(inflight)
			rctx, rcancel := context.WithTimeout(context.Background(), timeout)
			code, outs[i].log = run(rctx, bin, shardArgs(i), work)
			rcancel()
			outs[i].code = code
			if code == 3 {
				why2, _ := os.ReadFile(strings.TrimSuffix(inflight, ".json") + ".why")
				secondCase, _ := os.ReadFile(inflight)
				if f2, confirmed2, note2 := confirmHang(bin, inflight, work, *prop); confirmed2 {
					failures = append(failures, f2)
				} else if bytes.Equal(firstCase, secondCase) && len(firstCase) > 0 && strings.Contains(string(why), "guarded call running") && strings.Contains(string(why2), "guarded call running") {
					// The same case did not return within the limit in two
					// independent runs of this shard, while it returns at once
					// when it runs alone: the call depends on what the process
					// did before (a lock left held, a table that filled up).
					// Deterministic, so not a matter of load: a violation, with
					// the whole shard as its reproduction.
					f2.Property = *prop
					f2.Kind = "hang"
					if f2.Signature == "" {
						f2.Signature = "hang-after-history"
					}
					f2.Message = fmt.Sprintf("a library call made for this case did not return within the limit in two runs of shard %d of %d (seed %d), and returns at once when the case runs alone: it hangs only after what the process did before. Reproduce with VERIF_SEED=%d ./check %s %s; the replay file holds the case that was in flight.", i, shards, seed, seed, *prop, *tier)
					failures = append(failures, f2)
				} else {
					infra = append(infra, fmt.Sprintf("shard %d: watchdog fired twice (%s / %s) but the cases did not reproduce alone (%s)", i, strings.TrimSpace(string(why)), strings.TrimSpace(string(why2)), note2))
				}
				continue
			}
		}
		if code == 66 { // Go race detector with halt_on_error
			cur := filepath.Join(work, fmt.Sprintf("%s.current.shard%d.json", *prop, i))
			var f failure
			if cb, err := os.ReadFile(cur); err == nil && json.Unmarshal(cb, &f) == nil {
				f.Message += "\n" + raceReport(outs[i].log)
				failures = append(failures, f)
			} else {
				infra = append(infra, fmt.Sprintf("shard %d: race detector halted the process but no case was recorded\n%s", i, tail(outs[i].log, 40)))
			}
			continue
		}
		b, err := os.ReadFile(base + ".json")
		if err != nil {
			infra = append(infra, fmt.Sprintf("shard %d: exit %d and no result file\n%s", i, code, tail(outs[i].log, 60)))
			continue
		}
		var sr shardResult
		if err := json.Unmarshal(b, &sr); err != nil {
			infra = append(infra, fmt.Sprintf("shard %d: bad result file: %v", i, err))
			continue
		}
		if code != 0 && len(sr.Failures) == 0 {
			infra = append(infra, fmt.Sprintf("shard %d: exit %d without a recorded violation\n%s", i, code, tail(outs[i].log, 60)))
		}
		if sr.Incomplete {
			infra = append(infra, fmt.Sprintf("shard %d: a rapid run passed fewer cases than requested", i))
		}
		merged.Evaluations += sr.Evaluations
		merged.BulkNT += sr.BulkNT
		merged.Replayed += sr.Replayed
		for k, v := range sr.Classes {
			merged.Classes[k] += v
		}
		for k, v := range sr.Excluded {
			merged.Excluded[k] += v
		}
		if len(merged.Samples) < 16 {
			take := sr.Samples
			if len(take) > 6 && shards > 1 {
				take = take[:6]
			}
			merged.Samples = append(merged.Samples, take...)
		}
		if i == 0 {
			merged.Notes = append(merged.Notes, sr.Notes...)
			merged.Exhaustive = append(merged.Exhaustive, sr.Exhaustive...)
		}
		failures = append(failures, sr.Failures...)
		if fb, err := os.ReadFile(base + ".fps"); err == nil {
			for j := 0; j+8 <= len(fb); j += 8 {
				fps = append(fps, binary.LittleEndian.Uint64(fb[j:]))
			}
		}
	}
	sort.Slice(fps, func(i, j int) bool { return fps[i] < fps[j] })
	distinct := 0
	for i := range fps {
		if i == 0 || fps[i] != fps[i-1] {
			distinct++
		}
	}
	merged.Evaluations += fuzzExecs
	distinct += int(merged.BulkNT)

	// ---- known findings
	known := loadFindings()
	var unknown []failure
	for _, f := range failures {
		matched := false
		for _, k := range known {
			if k.Status == "open" && k.Property == *prop && k.Signature != "" && k.Signature == f.Signature {
				matched = true
			}
		}
		if !matched {
			unknown = append(unknown, f)
		}
	}
	for _, k := range known {
		if k.Status == "open" && k.Property == *prop {
			fmt.Printf("KNOWN-FINDING: property=%s %s\n", *prop, k.What)
		}
	}

	// ---- report violations (de-duplicated by signature)
	code := 0
	seenSig := map[string]bool{}
	nviol := 0
	for _, f := range unknown {
		key := f.Kind + "|" + f.Signature
		if seenSig[key] {
			continue
		}
		seenSig[key] = true
		nviol++
		path := f.Source
		if path == "" {
			dir := filepath.Join(root, "out", "replays")
			_ = os.MkdirAll(dir, 0o755)
			f.Property = *prop
			b, _ := json.MarshalIndent(f, "", " ")
			path = filepath.Join(dir, fmt.Sprintf("%s-%016x.json", *prop, hash(b)))
			_ = os.WriteFile(path, b, 0o644)
		}
		fmt.Printf("VIOLATION property=%s replay=%s\n", *prop, path)
		fmt.Printf("  kind=%s signature=%s\n  %s\n", f.Kind, f.Signature, strings.ReplaceAll(firstLines(f.Message, 12), "\n", "\n  "))
		code = 1
	}

	if code == 0 && (timedOut || len(infra) > 0) {
		code = 2
	}
	if timedOut {
		fmt.Printf("TIMEOUT property=%s after %v (inconclusive, not a violation)\n", *prop, timeout)
	}
	for _, s := range infra {
		fmt.Printf("INFRA property=%s %s\n", *prop, s)
	}

	// ---- evidence
	if *replay == "" && os.Getenv("VERIF_NOEVIDENCE") == "" {
		if len(merged.Samples) == 0 {
			// every shard ended early: show the violating cases instead
			for _, f := range failures {
				merged.Samples = append(merged.Samples, f.Case)
			}
		}
		writeEvidence(*prop, *tier, seed, cfg, merged, distinct, nviol, fuzzNotes, time.Since(start).Seconds(), shards)
	}
	fmt.Printf("%s %s seed=%d shards=%d evaluations=%d distinct_nontrivial=%d replayed=%d violations=%d wall=%.1fs exit=%d\n",
		*prop, *tier, seed, shards, merged.Evaluations, distinct, merged.Replayed, nviol, time.Since(start).Seconds(), code)
	if !*keep {
		os.RemoveAll(work)
	}
	os.Exit(code)
}

func hash(b []byte) uint64 {
	var h uint64 = 14695981039346656037
	for _, c := range b {
		h ^= uint64(c)
		h *= 1099511628211
	}
	return h
}

// raceReport cuts the first data race report out of a test log.
func raceReport(log string) string {
	i := strings.Index(log, "WARNING: DATA RACE")
	if i < 0 {
		return tail(log, 30)
	}
	return firstLines(log[i:], 45)
}

func firstLines(s string, n int) string {
	l := strings.Split(s, "\n")
	if len(l) > n {
		l = append(l[:n], "...")
	}
	for i := range l {
		if len(l[i]) > 400 {
			l[i] = l[i][:400] + "..."
		}
	}
	return strings.Join(l, "\n")
}

func tail(s string, n int) string {
	l := strings.Split(s, "\n")
	if len(l) > n {
		l = l[len(l)-n:]
	}
	return strings.Join(l, "\n")
}

// run executes the test binary, returns exit status and combined output.
func run(ctx context.Context, bin string, args []string, dir string) (int, string) {
	cmd := exec.CommandContext(ctx, bin, args...)
	cmd.Dir = filepath.Join(root, "harness", "props")
	cmd.Env = env()
	cmd.SysProcAttr = &syscall.SysProcAttr{Setpgid: true}
	cmd.Cancel = func() error { return syscall.Kill(-cmd.Process.Pid, syscall.SIGKILL) }
	out, err := cmd.CombinedOutput()
	if err == nil {
		return 0, string(out)
	}
	if ee, ok := err.(*exec.ExitError); ok {
		return ee.ExitCode(), string(out)
	}
	return -1, string(out) + "\n" + err.Error()
}

// confirmHang re-runs the in-flight case alone in a fresh child. Only when it
// hangs or blows up again is it reported.
func confirmHang(bin, inflight, work, prop string) (failure, bool, string) {
	var f failure
	b, err := os.ReadFile(inflight)
	if err != nil {
		return f, false, "no in-flight file"
	}
	if err := json.Unmarshal(b, &f); err != nil {
		return f, false, "bad in-flight file"
	}
	why, _ := os.ReadFile(strings.TrimSuffix(inflight, ".json") + ".why")
	confirmDir := filepath.Join(work, "confirm")
	_ = os.MkdirAll(confirmDir, 0o755)
	ctx, cancel := context.WithTimeout(context.Background(), 60*time.Second)
	defer cancel()
	f.Property = prop
	rb, _ := json.Marshal(f)
	rp := filepath.Join(confirmDir, "case.json")
	_ = os.WriteFile(rp, rb, 0o644)
	code, out := run(ctx, bin, []string{"-test.run", "^Test" + prop + "$", "-test.timeout=0", "-vf.replay=" + rp, "-vf.out=" + confirmDir}, work)
	if code == 3 || ctx.Err() != nil {
		f.Message = fmt.Sprintf("decoding does not return / memory grows without bound (confirmed alone in a fresh process): %s", strings.TrimSpace(string(why)))
		if f.Signature == "" {
			f.Signature = "hang"
		}
		f.Kind = "hang"
		return f, true, ""
	}
	if code == 1 {
		// reproduced as an ordinary violation
		if sb, err := os.ReadFile(filepath.Join(confirmDir, prop+".shard0.json")); err == nil {
			var sr shardResult
			if json.Unmarshal(sb, &sr) == nil && len(sr.Failures) > 0 {
				g := sr.Failures[0]
				g.Source = ""
				return g, true, ""
			}
		}
	}
	return f, false, fmt.Sprintf("exit %d: %s", code, tail(out, 5))
}

func loadFindings() []finding {
	b, err := os.ReadFile(filepath.Join(root, "known_findings.json"))
	if err != nil {
		return nil
	}
	var doc struct {
		Findings []finding `json:"findings"`
	}
	if err := json.Unmarshal(b, &doc); err != nil {
		fmt.Printf("INFRA known_findings.json unreadable: %v\n", err)
		return nil
	}
	return doc.Findings
}

func writeEvidence(prop, tier string, seed uint64, cfg propCfg, m shardResult, distinct, nviol int, fuzzNotes []string, wall float64, shards int) {
	samples := make([]interface{}, 0, len(m.Samples))
	for _, s := range m.Samples {
		var v interface{}
		_ = json.Unmarshal(s, &v)
		samples = append(samples, v)
	}
	cov := map[string]interface{}{
		"evaluations":               m.Evaluations,
		"distinct_nontrivial":       distinct,
		"rule":                      cfg.Rule,
		"samples":                   samples,
		"classes":                   m.Classes,
		"replayed_regression_cases": m.Replayed,
		"shards":                    shards,
		"exhaustive":                false,
	}
	if len(m.Exhaustive) > 0 {
		cov["exhaustive_parts"] = m.Exhaustive
		if strings.HasPrefix(m.Exhaustive[0], "ALL:") {
			cov["exhaustive"] = true
		}
	}
	if len(m.Excluded) > 0 {
		cov["excluded_by_construction"] = m.Excluded
	}
	if len(m.Notes) > 0 {
		cov["notes"] = m.Notes
	}
	if len(fuzzNotes) > 0 {
		cov["native_fuzz"] = fuzzNotes
	}
	ev := map[string]interface{}{
		"property_id": prop,
		"tier":        tier,
		"seed":        seed,
		"level":       cfg.Level,
		"coverage":    cov,
		"assumptions": cfg.Assumptions,
		"wall_s":      wall,
		"violations":  nviol,
	}
	b, _ := json.MarshalIndent(ev, "", " ")
	_ = os.MkdirAll(filepath.Join(root, "evidence"), 0o755)
	tmp := filepath.Join(root, "evidence", prop+".json.tmp")
	_ = os.WriteFile(tmp, b, 0o644)
	_ = os.Rename(tmp, filepath.Join(root, "evidence", prop+".json"))
}
