package guard

import (
	"errors"
	"fmt"
	"io"
	"time"
)

// Step is one Read call of a scripted reader: deliver N bytes (capped by the
// caller's buffer and the bytes left) and, when Err is non-empty, an error
// together with them. N == 0 with an empty Err is a legal (0, nil) read.
type Step struct {
	N   int    `json:"n"`
	Err string `json:"err,omitempty"` // "", "EOF" or "X" (the injected sentinel)
}

// ErrInjected is the sentinel error a scripted reader / writer injects.
// A fresh value is made per reader so errors.Is identity is meaningful.
type InjectedError struct{ ID int }

func (e *InjectedError) Error() string { return fmt.Sprintf("injected transport failure #%d", e.ID) }

// ScriptReader delivers Data according to Steps; after the script it delivers
// the rest in full reads and finally (0, io.EOF). It obeys the io.Reader
// contract: never more than len(p) bytes, never negative counts.
type ScriptReader struct {
	Data     []byte
	Steps    []Step
	Injected error // returned for Err == "X"
	After    error // error once data and script are exhausted (default io.EOF)
	// NonSticky: an injected error is reported once; later reads continue
	// (with io.EOF once the data is exhausted), like a reset connection.
	NonSticky bool
	// Block: once data and script are exhausted, Read blocks until Release is
	// closed (a connection that stays open), then returns io.EOF.
	Block   bool
	Release chan struct{}

	pos         int
	step        int
	stepLeft    int
	stepStarted bool
	NCalls      int
	dead        error
}

type Call_ struct {
	Len int
	N   int
	Err error
}

func (r *ScriptReader) Read(p []byte) (n int, err error) {
	r.NCalls++
	if r.dead != nil {
		return 0, r.dead
	}
	if len(p) == 0 {
		return 0, nil
	}
	left := len(r.Data) - r.pos
	if r.step < len(r.Steps) {
		s := &r.Steps[r.step]
		if !r.stepStarted {
			r.stepLeft = s.N
			if r.stepLeft > left {
				r.stepLeft = left
			}
			if r.stepLeft < 0 {
				r.stepLeft = 0
			}
			r.stepStarted = true
		}
		n = r.stepLeft
		if n > len(p) {
			n = len(p)
		}
		copy(p, r.Data[r.pos:r.pos+n])
		r.pos += n
		r.stepLeft -= n
		if r.stepLeft > 0 {
			// the caller's buffer was smaller than the step: the rest of the
			// step (and its error, if any) comes with a later Read
			return n, nil
		}
		r.step++
		r.stepStarted = false
		switch s.Err {
		case "EOF":
			if r.pos < len(r.Data) {
				// io.EOF is only legal at the end of the stream
				return n, nil
			}
			r.dead = io.EOF
			return n, io.EOF
		case "X":
			if !r.NonSticky {
				r.dead = r.Injected
			}
			return n, r.Injected
		}
		return n, nil
	}
	if left == 0 {
		if r.Block && r.Release != nil {
			<-r.Release
			return 0, io.EOF
		}
		if r.After != nil {
			if !r.NonSticky {
				r.dead = r.After
			} else {
				err := r.After
				r.After = nil
				return 0, err
			}
			return 0, r.After
		}
		return 0, io.EOF
	}
	n = copy(p, r.Data[r.pos:])
	r.pos += n
	return n, nil
}

// Consumed is the number of bytes handed out so far.
func (r *ScriptReader) Consumed() int { return r.pos }

// ScriptWriter accepts the first Accept bytes, then reports Err together with
// the short count, as io.Writer requires. Accept < 0 accepts everything.
type ScriptWriter struct {
	Accept int
	Err    error
	Got    []byte
	Calls  int
}

func (w *ScriptWriter) Write(p []byte) (int, error) {
	w.Calls++
	if w.Accept < 0 {
		w.Got = append(w.Got, p...)
		return len(p), nil
	}
	room := w.Accept - len(w.Got)
	if room < 0 {
		room = 0
	}
	if room >= len(p) {
		w.Got = append(w.Got, p...)
		return len(p), nil
	}
	w.Got = append(w.Got, p[:room]...)
	err := w.Err
	if err == nil {
		err = errors.New("short write")
	}
	return room, err
}

// ChunkLenReader is a ScriptReader that also has a Len method reporting the
// bytes of the current chunk that are still undelivered (what a segment
// queue or ring buffer calls its length), not the bytes of the whole stream.
type ChunkLenReader struct{ *ScriptReader }

func (c ChunkLenReader) Len() int {
	r := c.ScriptReader
	if r.step < len(r.Steps) {
		if r.stepStarted {
			return r.stepLeft
		}
		n := r.Steps[r.step].N
		if left := len(r.Data) - r.pos; n > left {
			n = left
		}
		return n
	}
	return len(r.Data) - r.pos
}

// DeadlineReader is a reader with the deadline methods of a net.Conn whose
// peer is slow: between any two Reads an hour passes on its own clock. It
// honours a read deadline the consumer sets (a Read after the deadline fails
// with a timeout error, as a connection does) and ignores none; a consumer
// that sets no deadline of its own never sees a timeout. The slowness is
// virtual (the clock is the wall clock plus an offset), so nothing waits.
type DeadlineReader struct {
	*ScriptReader
	offset   time.Duration
	deadline time.Time
	Calls    int // SetReadDeadline / SetDeadline calls with a non-zero time
}

type deadlineExceeded struct{}

func (deadlineExceeded) Error() string {
	return "i/o timeout (read deadline set by the consumer exceeded)"
}
func (deadlineExceeded) Timeout() bool   { return true }
func (deadlineExceeded) Temporary() bool { return true }

func (d *DeadlineReader) Read(p []byte) (int, error) {
	if !d.deadline.IsZero() && time.Now().Add(d.offset).After(d.deadline) {
		return 0, deadlineExceeded{}
	}
	n, err := d.ScriptReader.Read(p)
	d.offset += time.Hour
	return n, err
}

func (d *DeadlineReader) SetReadDeadline(t time.Time) error {
	d.deadline = t
	if !t.IsZero() {
		d.Calls++
	}
	return nil
}

func (d *DeadlineReader) SetDeadline(t time.Time) error { return d.SetReadDeadline(t) }

// Writers with the optional interfaces of the io package on top of a
// ScriptWriter: code that type-asserts its writer takes other paths for them.

// ByteScriptWriter is also an io.ByteWriter.
type ByteScriptWriter struct{ *ScriptWriter }

func (w ByteScriptWriter) WriteByte(c byte) error {
	if n, err := w.ScriptWriter.Write([]byte{c}); n != 1 {
		return err
	}
	return nil
}

// StringScriptWriter is also an io.StringWriter.
type StringScriptWriter struct{ *ScriptWriter }

func (w StringScriptWriter) WriteString(s string) (int, error) {
	return w.ScriptWriter.Write([]byte(s))
}

// ReaderFromScriptWriter is also an io.ReaderFrom.
type ReaderFromScriptWriter struct{ *ScriptWriter }

func (w ReaderFromScriptWriter) ReadFrom(r io.Reader) (int64, error) {
	b, rerr := io.ReadAll(r)
	n, err := w.ScriptWriter.Write(b)
	if err == nil {
		err = rerr
	}
	return int64(n), err
}

// AllScriptWriter has all three.
type AllScriptWriter struct{ *ScriptWriter }

func (w AllScriptWriter) WriteByte(c byte) error {
	return ByteScriptWriter{w.ScriptWriter}.WriteByte(c)
}
func (w AllScriptWriter) WriteString(s string) (int, error) {
	return w.ScriptWriter.Write([]byte(s))
}
func (w AllScriptWriter) ReadFrom(r io.Reader) (int64, error) {
	return ReaderFromScriptWriter{w.ScriptWriter}.ReadFrom(r)
}
