// Package guard wraps calls into the library: it converts panics into
// ordinary failures, watches for hangs and heap blow-ups, and provides
// scripted readers and writers that obey the io contracts.
package guard

import (
	"fmt"
	"os"
	"path/filepath"
	"runtime"
	"runtime/debug"
	"sync"
	"sync/atomic"
	"time"
)

// ExitHang is the process exit status used when the watchdog fires.
const ExitHang = 3

// Panic describes a recovered panic.
type Panic struct {
	Value interface{}
	Stack string
}

func (p *Panic) Error() string { return fmt.Sprintf("panic: %v", p.Value) }

// Call runs f and converts a panic into a *Panic. When a test has announced
// its current case (SetCurrent) and no guarded call is in flight yet, the
// call is also watched for hangs and heap blow-ups on behalf of that case.
func Call(f func()) (p *Panic) {
	if r := current.Load(); r != nil && cur.Load() == nil {
		c := &inflight{start: time.Now(), render: *r, budget: 1 << 24}
		cur.Store(c)
		defer cur.CompareAndSwap(c, nil)
	}
	defer func() {
		if v := recover(); v != nil {
			p = &Panic{Value: v, Stack: string(debug.Stack())}
		}
	}()
	f()
	return nil
}

var current atomic.Pointer[func() []byte]

// SetCurrent announces how to render the case a test is working on, for the
// watchdog; nil clears it.
func SetCurrent(render func() []byte) {
	if render == nil {
		current.Store(nil)
		return
	}
	current.Store(&render)
}

type inflight struct {
	start  time.Time
	render func() []byte
	budget uint64
}

var (
	cur      atomic.Pointer[inflight]
	once     sync.Once
	dir      string
	label    string
	HangTime = 20 * time.Second
	// HeapBase is the heap the watchdog tolerates on top of 16x the declared
	// size of the case in flight.
	HeapBase uint64 = 1 << 30
)

// StartWatchdog starts the monitor goroutine (idempotent). When a guarded
// call runs longer than HangTime or the live heap exceeds the budget, the
// case in flight is written to <outDir>/<name>.inflight.json and the process
// exits with ExitHang. The driver re-runs that case alone before believing it.
func StartWatchdog(outDir, name string) {
	once.Do(func() {
		dir, label = outDir, name
		go func() {
			var ms runtime.MemStats
			for {
				time.Sleep(50 * time.Millisecond)
				c := cur.Load()
				if c == nil {
					continue
				}
				el := time.Since(c.start)
				if el < 200*time.Millisecond {
					continue
				}
				runtime.ReadMemStats(&ms)
				over := ms.HeapAlloc > HeapBase+c.budget
				if el > HangTime || over {
					if cur.Load() != c {
						continue // finished meanwhile
					}
					why := fmt.Sprintf("guarded call running for %v", el)
					if over {
						why = fmt.Sprintf("heap %d MiB after %v in one guarded call", ms.HeapAlloc>>20, el)
					}
					fire(c, why)
				}
			}
		}()
	})
}

func fire(c *inflight, why string) {
	data := c.render()
	fmt.Fprintf(os.Stderr, "WATCHDOG: %s\n", why)
	if dir != "" {
		_ = os.MkdirAll(dir, 0o755)
		_ = os.WriteFile(filepath.Join(dir, label+".inflight.json"), data, 0o644)
		_ = os.WriteFile(filepath.Join(dir, label+".inflight.why"), []byte(why), 0o644)
	}
	os.Exit(ExitHang)
}

// Watched runs f as a guarded call: panics are captured, and while it runs
// the watchdog can attribute a hang or blow-up to the rendered case. size is
// the declared size of the input (bytes) and scales the heap budget.
func Watched(size int, render func() []byte, f func()) *Panic {
	if r := current.Load(); r != nil {
		render = *r // the test's own case wins (e.g. a prelude decode inside a larger case)
	}
	c := &inflight{start: time.Now(), render: render, budget: uint64(size) * 16}
	cur.Store(c)
	p := Call(f)
	cur.Store(nil)
	return p
}
