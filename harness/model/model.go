// Package model holds the abstract packet model: a plain record of every
// field of every MQTT v5.0 control packet type. It is the common currency of
// the generators, the builder (public API of the library), the observer
// (public accessors of the library) and the reference codec.
package model

import (
	"bytes"
	"encoding/hex"
	"fmt"
	"reflect"
	"strings"
)

// Packet type numbers (high nibble of the first byte), written from the
// specification, not taken from the library.
const (
	UNDEFINED   = 0
	CONNECT     = 1
	CONNACK     = 2
	PUBLISH     = 3
	PUBACK      = 4
	PUBREC      = 5
	PUBREL      = 6
	PUBCOMP     = 7
	SUBSCRIBE   = 8
	SUBACK      = 9
	UNSUBSCRIBE = 10
	UNSUBACK    = 11
	PINGREQ     = 12
	PINGRESP    = 13
	DISCONNECT  = 14
	AUTH        = 15
)

var TypeNames = [16]string{
	"UNDEFINED", "CONNECT", "CONNACK", "PUBLISH", "PUBACK", "PUBREC", "PUBREL",
	"PUBCOMP", "SUBSCRIBE", "SUBACK", "UNSUBSCRIBE", "UNSUBACK", "PINGREQ",
	"PINGRESP", "DISCONNECT", "AUTH",
}

// CONNECT flag bits, from the specification (3.1.2.3).
const (
	CFReserved   = 0x01
	CFCleanStart = 0x02
	CFWill       = 0x04
	CFWillQoS1   = 0x08
	CFWillQoS2   = 0x10
	CFWillRetain = 0x20
	CFPassword   = 0x40
	CFUsername   = 0x80
)

type KV struct{ K, V string }

type Filter struct {
	Filter string
	Opts   uint8
}

// Will is what a will message can carry. The will delay interval is a will
// property on the wire but a CONNECT field in the library's API.
type Will struct {
	Topic           string
	Payload         []byte
	QoS             uint8
	Retain          bool
	PayloadFormat   bool
	MessageExpiry   uint32
	ContentType     string
	ResponseTopic   string
	CorrelationData []byte
	UserProps       []KV
	// XDup (harness only, not compared): the *Publish handed to SetWill has
	// its DUP bit set - meaningless for a will, but a value a caller can pass.
	XDup bool
}

// Packet is the superset record. Each packet type uses the subset of fields
// that exists for it; all others stay zero on every side of a comparison.
type Packet struct {
	Type uint8

	// PUBLISH header flags
	Dup    bool
	QoS    uint8
	Retain bool

	PacketID uint16

	// CONNECT
	ProtocolName    string
	ProtocolVersion uint8
	CFlags          uint8 // whole flag byte as HasFlag reports it; derived by Normalize
	CleanStart      bool
	KeepAlive       uint16
	ClientID        string
	HasUsername     bool // user-name flag
	Username        string
	HasPassword     bool // password flag
	Password        []byte
	Will            *Will
	WillDelay       uint32

	// CONNACK
	AckFlags       uint8 // whole acknowledge-flags byte; derived by Normalize
	SessionPresent bool

	ReasonCode   uint8
	ReasonString string

	// properties shared by several packet types
	SessionExpiry       uint32
	ReceiveMax          uint16
	MaxPacketSize       uint32
	TopicAliasMax       uint16
	RequestResponseInfo bool
	RequestProblemInfo  bool
	AuthMethod          string
	AuthData            []byte
	MaxQoS              uint8
	RetainAvailable     bool
	AssignedClientID    string
	WildcardSubAvail    bool
	SubIDsAvail         bool
	SharedSubAvail      bool
	ServerKeepAlive     uint16
	ResponseInformation string
	ServerReference     string

	// PUBLISH
	TopicName       string
	PayloadFormat   bool
	MessageExpiry   uint32
	TopicAlias      uint16
	ResponseTopic   string
	CorrelationData []byte
	ContentType     string
	SubIDs          []uint32
	Payload         []byte

	// SUBSCRIBE
	SubID   int // -1 = absent
	Filters []Filter

	// UNSUBSCRIBE
	UnsubFilters []string

	// SUBACK / UNSUBACK
	ReasonCodes []uint8

	UserProps []KV

	// Undefined (type 0)
	Data []byte

	// XEmptyNonNil is a harness-only switch (not a packet field, ignored by
	// Diff and String): empty binary values are handed to setters as an
	// empty non-nil slice instead of nil.
	XEmptyNonNil bool
}

func New(typ uint8) Packet {
	m := Packet{Type: typ, SubID: 0}
	if typ == SUBSCRIBE {
		m.SubID = -1
	}
	if typ == CONNECT {
		m.ProtocolName = "MQTT"
		m.ProtocolVersion = 5
	}
	return m
}

// Normalize fills the derived fields (flag bytes) from the primary ones.
func (m *Packet) Normalize() {
	if m.Type == CONNECT {
		var f uint8
		if m.CleanStart {
			f |= CFCleanStart
		}
		if m.Will != nil {
			f |= CFWill
			f |= (m.Will.QoS & 3) << 3
			if m.Will.Retain {
				f |= CFWillRetain
			}
		}
		if m.HasUsername {
			f |= CFUsername
		}
		if m.HasPassword {
			f |= CFPassword
		}
		m.CFlags = f
	}
	if m.Type == CONNACK {
		m.AckFlags = 0
		if m.SessionPresent {
			m.AckFlags = 1
		}
	}
}

// FirstByte gives the first byte the specification mandates for the packet.
func (m *Packet) FirstByte() byte {
	b := byte(m.Type) << 4
	switch m.Type {
	case PUBLISH:
		if m.Dup {
			b |= 8
		}
		b |= (m.QoS & 3) << 1
		if m.Retain {
			b |= 1
		}
	case PUBREL, SUBSCRIBE, UNSUBSCRIBE:
		b |= 2
	}
	return b
}

// Clone makes a deep copy.
func (m Packet) Clone() Packet {
	c := m
	c.Password = cloneB(m.Password)
	c.AuthData = cloneB(m.AuthData)
	c.CorrelationData = cloneB(m.CorrelationData)
	c.Payload = cloneB(m.Payload)
	c.Data = cloneB(m.Data)
	c.SubIDs = append([]uint32(nil), m.SubIDs...)
	c.Filters = append([]Filter(nil), m.Filters...)
	c.UnsubFilters = append([]string(nil), m.UnsubFilters...)
	c.ReasonCodes = append([]uint8(nil), m.ReasonCodes...)
	c.UserProps = append([]KV(nil), m.UserProps...)
	if m.Will != nil {
		w := *m.Will
		w.Payload = cloneB(w.Payload)
		w.CorrelationData = cloneB(w.CorrelationData)
		w.UserProps = append([]KV(nil), w.UserProps...)
		c.Will = &w
	}
	return c
}

func cloneB(b []byte) []byte {
	if b == nil {
		return nil
	}
	return append([]byte{}, b...)
}

// Diff returns "" when a and b are equal field by field (nil and empty
// slices/strings are the same value), otherwise the name of the first
// differing field with both values.
func Diff(a, b Packet) string {
	return diffValue("", reflect.ValueOf(a), reflect.ValueOf(b))
}

func Equal(a, b Packet) bool { return Diff(a, b) == "" }

func diffValue(path string, a, b reflect.Value) string {
	switch a.Kind() {
	case reflect.Struct:
		for i := 0; i < a.NumField(); i++ {
			name := a.Type().Field(i).Name
			if strings.HasPrefix(name, "X") {
				continue
			}
			p := name
			if path != "" {
				p = path + "." + name
			}
			if d := diffValue(p, a.Field(i), b.Field(i)); d != "" {
				return d
			}
		}
		return ""
	case reflect.Ptr:
		if a.IsNil() != b.IsNil() {
			return fmt.Sprintf("%s: nil=%v vs nil=%v", path, a.IsNil(), b.IsNil())
		}
		if a.IsNil() {
			return ""
		}
		return diffValue(path, a.Elem(), b.Elem())
	case reflect.Slice:
		if a.Len() != b.Len() {
			return fmt.Sprintf("%s: len %d vs %d", path, a.Len(), b.Len())
		}
		if a.Type().Elem().Kind() == reflect.Uint8 {
			if !bytes.Equal(a.Bytes(), b.Bytes()) {
				return fmt.Sprintf("%s: %s vs %s", path, short(a.Bytes()), short(b.Bytes()))
			}
			return ""
		}
		for i := 0; i < a.Len(); i++ {
			if d := diffValue(fmt.Sprintf("%s[%d]", path, i), a.Index(i), b.Index(i)); d != "" {
				return d
			}
		}
		return ""
	case reflect.String:
		if a.String() != b.String() {
			return fmt.Sprintf("%s: %s vs %s", path, short([]byte(a.String())), short([]byte(b.String())))
		}
		return ""
	default:
		if a.Interface() != b.Interface() {
			return fmt.Sprintf("%s: %v vs %v", path, a.Interface(), b.Interface())
		}
		return ""
	}
}

func short(b []byte) string {
	if len(b) <= 24 {
		return fmt.Sprintf("%q(len %d)", b, len(b))
	}
	return fmt.Sprintf("%q..%s(len %d)", b[:12], hex.EncodeToString(b[len(b)-4:]), len(b))
}

// String renders a compact one-line description (non-zero fields only) used
// in samples and failure messages.
func (m Packet) String() string {
	var sb strings.Builder
	sb.WriteString(TypeNames[m.Type&15])
	v := reflect.ValueOf(m)
	for i := 0; i < v.NumField(); i++ {
		f := v.Field(i)
		name := v.Type().Field(i).Name
		if name == "Type" || strings.HasPrefix(name, "X") {
			continue
		}
		if name == "SubID" {
			if m.Type == SUBSCRIBE && m.SubID != -1 {
				fmt.Fprintf(&sb, " SubID=%d", m.SubID)
			}
			continue
		}
		if f.IsZero() {
			continue
		}
		sb.WriteString(" " + name + "=" + render(f))
	}
	if sb.Len() > 700 {
		return sb.String()[:700] + "..."
	}
	return sb.String()
}

func render(f reflect.Value) string {
	switch f.Kind() {
	case reflect.Ptr:
		if f.IsNil() {
			return "nil"
		}
		return "{" + renderStruct(f.Elem()) + "}"
	case reflect.Struct:
		return "{" + renderStruct(f) + "}"
	case reflect.String:
		return short([]byte(f.String()))
	case reflect.Slice:
		if f.Type().Elem().Kind() == reflect.Uint8 {
			return short(f.Bytes())
		}
		var parts []string
		for i := 0; i < f.Len() && i < 6; i++ {
			parts = append(parts, render(f.Index(i)))
		}
		if f.Len() > 6 {
			parts = append(parts, fmt.Sprintf("...(%d)", f.Len()))
		}
		return "[" + strings.Join(parts, ",") + "]"
	default:
		return fmt.Sprint(f.Interface())
	}
}

func renderStruct(v reflect.Value) string {
	var parts []string
	for i := 0; i < v.NumField(); i++ {
		if v.Field(i).IsZero() {
			continue
		}
		parts = append(parts, v.Type().Field(i).Name+"="+render(v.Field(i)))
	}
	return strings.Join(parts, " ")
}

// WellFormedMQTT reports whether the packet is well formed by MQTT's own
// rules as listed in the C02 statement: topic name or alias, non-zero packet
// identifier where QoS requires one, at least one filter / reason code where
// the type has a payload list, default protocol name and version.
func (m *Packet) WellFormedMQTT() bool {
	switch m.Type {
	case CONNECT:
		if m.ProtocolName != "MQTT" || m.ProtocolVersion != 5 {
			return false
		}
		if m.Will != nil && m.Will.QoS > 2 {
			return false
		}
	case PUBLISH:
		if m.TopicName == "" && m.TopicAlias == 0 {
			return false
		}
		if m.QoS > 2 {
			return false
		}
		if m.QoS > 0 && m.PacketID == 0 {
			return false
		}
	case SUBSCRIBE:
		if len(m.Filters) == 0 {
			return false
		}
	case UNSUBSCRIBE:
		if len(m.UnsubFilters) == 0 {
			return false
		}
	case SUBACK, UNSUBACK:
		if len(m.ReasonCodes) == 0 {
			return false
		}
	}
	return true
}
