// Package vf is the small framework shared by all property tests: flags
// (tier, seed, shard), the evidence recorder (evaluations, distinct
// non-trivial fingerprints, class histogram, samples, failure capture), the
// rapid wrapper (deterministic seeds, captured shrunk failure), replay files.
package vf

import (
	"encoding/binary"
	"encoding/json"
	"flag"
	"fmt"
	"hash/fnv"
	"os"
	"path/filepath"
	"regexp"
	"runtime/debug"
	"sort"
	"strconv"
	"strings"
	"sync"
	"testing"
	"time"

	"pgregory.net/rapid"
)

var (
	Tier    = flag.String("vf.tier", "quick", "quick | thorough")
	Seed    = flag.Uint64("vf.seed", 1, "VERIF_SEED (0 is remapped)")
	Shard   = flag.Int("vf.shard", 0, "shard index")
	Shards  = flag.Int("vf.shards", 1, "number of shards")
	Out     = flag.String("vf.out", "", "directory for the shard result")
	Replay  = flag.String("vf.replay", "", "replay a single case file instead of generating")
	Replays = flag.String("vf.replays", "", "directory with committed replay files for this property")
	Scale   = flag.Float64("vf.scale", 1, "multiplier on case counts")
)

func Thorough() bool { return *Tier == "thorough" }

// N picks the case count for the tier, split over the shards.
func N(quick, thorough int) int {
	n := quick
	if Thorough() {
		n = thorough
	}
	n = int(float64(n) * *Scale)
	if *Shards > 1 {
		n = (n + *Shards - 1) / *Shards
	}
	if n < 1 {
		n = 1
	}
	return n
}

// Failure is a captured violation: a case in the property's own replay
// format plus a human readable message.
type Failure struct {
	Property string          `json:"property"`
	Kind     string          `json:"kind"`
	Case     json.RawMessage `json:"case"`
	Message  string          `json:"message"`
	// Signature names the root-cause region, used to match known findings.
	Signature string `json:"signature,omitempty"`
	Source    string `json:"source,omitempty"` // replay file the case came from, if any
}

type RapidRun struct {
	Name      string  `json:"name"`
	Requested int     `json:"requested"`
	Passed    int     `json:"passed"`
	Seed      uint64  `json:"seed"`
	Failed    bool    `json:"failed"`
	Seconds   float64 `json:"seconds"`
}

// Rec collects the evidence of one property in one process.
type Rec struct {
	Prop string

	mu         sync.Mutex
	evals      int64
	fps        map[uint64]struct{}
	classes    map[string]int64
	samples    []interface{}
	sampleSeen map[string]int
	excluded   map[string]int64
	notes      []string
	exhaustive []string
	runs       []RapidRun
	failures   []Failure
	replayed   int
	bulkNT     int64
	start      time.Time
	curKind    string
}

func NewRec(prop string) *Rec {
	return &Rec{Prop: prop, fps: map[uint64]struct{}{}, classes: map[string]int64{}, sampleSeen: map[string]int{}, excluded: map[string]int64{}, start: time.Now()}
}

// FP is a 64-bit FNV-1a fingerprint over the given parts.
func FP(parts ...[]byte) uint64 {
	h := fnv.New64a()
	var l [4]byte
	for _, p := range parts {
		binary.LittleEndian.PutUint32(l[:], uint32(len(p)))
		h.Write(l[:])
		h.Write(p)
	}
	return h.Sum64()
}

func FPs(parts ...string) uint64 {
	bs := make([][]byte, len(parts))
	for i, p := range parts {
		bs[i] = []byte(p)
	}
	return FP(bs...)
}

// Case records one oracle evaluation. fp identifies the case; nontrivial is
// the property's stated rule; class feeds the histogram; sample is rendered
// lazily and only kept for the first few cases of each class.
func (r *Rec) Case(fp uint64, nontrivial bool, class string, sample func() interface{}) {
	r.mu.Lock()
	defer r.mu.Unlock()
	r.evals++
	if nontrivial {
		r.fps[fp] = struct{}{}
	}
	if class != "" {
		r.classes[class]++
	}
	if sample != nil && len(r.samples) < 24 && r.sampleSeen[class] < 2 && nontrivial {
		key := "fp:" + strconv.FormatUint(fp, 16)
		if r.sampleSeen[key] == 0 {
			r.sampleSeen[key] = 1
			r.sampleSeen[class]++
			r.samples = append(r.samples, sample())
		}
	}
}

// Bulk records n enumerated cases that are distinct by construction (each
// value / sequence of a finite space visited exactly once), nt of which are
// non-trivial. No fingerprints are stored for them.
func (r *Rec) Bulk(class string, n, nt int64) {
	r.mu.Lock()
	r.evals += n
	r.bulkNT += nt
	if class != "" {
		r.classes[class] += n
	}
	r.mu.Unlock()
}

// Sample adds a sample case directly.
func (r *Rec) Sample(v interface{}) {
	r.mu.Lock()
	if len(r.samples) < 24 {
		r.samples = append(r.samples, v)
	}
	r.mu.Unlock()
}

// Count adds to the class histogram without counting an evaluation.
func (r *Rec) Count(class string, n int64) {
	r.mu.Lock()
	r.classes[class] += n
	r.mu.Unlock()
}

func (r *Rec) Evals(n int64) {
	r.mu.Lock()
	r.evals += n
	r.mu.Unlock()
}

func (r *Rec) Exclude(what string) {
	r.mu.Lock()
	r.excluded[what]++
	r.mu.Unlock()
}

func (r *Rec) Note(format string, a ...interface{}) {
	r.mu.Lock()
	r.notes = append(r.notes, fmt.Sprintf(format, a...))
	r.mu.Unlock()
}

// Exhaustive declares that a finite sub-space was enumerated completely.
func (r *Rec) Exhaustive(what string) {
	r.mu.Lock()
	r.exhaustive = append(r.exhaustive, what)
	r.mu.Unlock()
}

func (r *Rec) ClassCount(class string) int64 {
	r.mu.Lock()
	defer r.mu.Unlock()
	return r.classes[class]
}

// Fail records a violation. The last failure recorded during a rapid run is
// the shrunk one (rapid re-runs the minimal case last).
func (r *Rec) Fail(kind string, c interface{}, signature, format string, a ...interface{}) *Failure {
	raw, err := json.Marshal(c)
	if err != nil {
		raw, _ = json.Marshal(fmt.Sprintf("unmarshalable case: %v", err))
	}
	f := Failure{Property: r.Prop, Kind: kind, Case: raw, Message: fmt.Sprintf(format, a...), Signature: signature}
	r.mu.Lock()
	r.failures = append(r.failures, f)
	r.mu.Unlock()
	return &f
}

func (r *Rec) Failed() bool {
	r.mu.Lock()
	defer r.mu.Unlock()
	return len(r.failures) > 0
}

// popFailuresSince drops failures recorded after index n except the last,
// which is returned (the shrunk counter-example of one rapid run).
func (r *Rec) keepLastSince(n int) {
	r.mu.Lock()
	defer r.mu.Unlock()
	if len(r.failures) > n+1 {
		last := r.failures[len(r.failures)-1]
		r.failures = append(r.failures[:n], last)
	}
}

func (r *Rec) nFailures() int {
	r.mu.Lock()
	defer r.mu.Unlock()
	return len(r.failures)
}

// ShardResult is what one process writes for the driver.
type ShardResult struct {
	Property    string           `json:"property"`
	Tier        string           `json:"tier"`
	Seed        uint64           `json:"seed"`
	Shard       int              `json:"shard"`
	Shards      int              `json:"shards"`
	Evaluations int64            `json:"evaluations"`
	Nontrivial  int              `json:"nontrivial_in_shard"`
	BulkNT      int64            `json:"bulk_distinct_nontrivial"`
	Classes     map[string]int64 `json:"classes"`
	Samples     []interface{}    `json:"samples"`
	Excluded    map[string]int64 `json:"excluded,omitempty"`
	Notes       []string         `json:"notes,omitempty"`
	Exhaustive  []string         `json:"exhaustive,omitempty"`
	Runs        []RapidRun       `json:"rapid_runs,omitempty"`
	Failures    []Failure        `json:"failures,omitempty"`
	Replayed    int              `json:"replayed"`
	WallS       float64          `json:"wall_s"`
	Incomplete  bool             `json:"incomplete,omitempty"`
}

// Finish writes the shard result (JSON + fingerprints) and fails the test if
// violations were recorded. It must be deferred at the top of every Test.
func (r *Rec) Finish(t *testing.T) {
	r.mu.Lock()
	res := ShardResult{
		Property: r.Prop, Tier: *Tier, Seed: *Seed, Shard: *Shard, Shards: *Shards,
		Evaluations: r.evals, Nontrivial: len(r.fps), BulkNT: r.bulkNT, Classes: r.classes, Samples: r.samples,
		Excluded: r.excluded, Notes: r.notes, Exhaustive: r.exhaustive, Runs: r.runs,
		Failures: r.failures, Replayed: r.replayed, WallS: time.Since(r.start).Seconds(),
	}
	fps := make([]uint64, 0, len(r.fps))
	for k := range r.fps {
		fps = append(fps, k)
	}
	r.mu.Unlock()
	for _, run := range res.Runs {
		if !run.Failed && run.Passed < run.Requested {
			res.Incomplete = true
		}
	}
	sort.Slice(fps, func(i, j int) bool { return fps[i] < fps[j] })
	if *Out != "" {
		_ = os.MkdirAll(*Out, 0o755)
		b, err := json.MarshalIndent(res, "", " ")
		if err != nil {
			t.Fatalf("marshal shard result: %v", err)
		}
		base := filepath.Join(*Out, fmt.Sprintf("%s.shard%d", r.Prop, *Shard))
		buf := make([]byte, 8*len(fps))
		for i, v := range fps {
			binary.LittleEndian.PutUint64(buf[8*i:], v)
		}
		if err := os.WriteFile(base+".fps", buf, 0o644); err != nil {
			t.Fatalf("write fps: %v", err)
		}
		if err := os.WriteFile(base+".json", b, 0o644); err != nil {
			t.Fatalf("write shard result: %v", err)
		}
	}
	for _, f := range res.Failures {
		t.Errorf("VIOLATION-CANDIDATE property=%s kind=%s: %s", f.Property, f.Kind, f.Message)
	}
	t.Logf("%s: evaluations=%d distinct_nontrivial=%d classes=%d wall=%.1fs", r.Prop, res.Evaluations, res.Nontrivial, len(res.Classes), res.WallS)
}

// ---------------------------------------------------------------- rapid

type recTB struct {
	name   string
	mu     sync.Mutex
	failed bool
	logs   []string
}

type stopRun struct{}

func (b *recTB) Helper()      {}
func (b *recTB) Name() string { return b.name }
func (b *recTB) Logf(format string, args ...interface{}) {
	b.mu.Lock()
	if len(b.logs) < 400 {
		b.logs = append(b.logs, fmt.Sprintf(format, args...))
	}
	b.mu.Unlock()
}
func (b *recTB) Log(args ...interface{})                   { b.Logf("%s", fmt.Sprint(args...)) }
func (b *recTB) Skipf(format string, args ...interface{})  { panic(stopRun{}) }
func (b *recTB) Skip(args ...interface{})                  { panic(stopRun{}) }
func (b *recTB) SkipNow()                                  { panic(stopRun{}) }
func (b *recTB) Errorf(format string, args ...interface{}) { b.failed = true; b.Logf(format, args...) }
func (b *recTB) Error(args ...interface{})                 { b.failed = true; b.Log(args...) }
func (b *recTB) Fatalf(format string, args ...interface{}) {
	b.failed = true
	b.Logf(format, args...)
	panic(stopRun{})
}
func (b *recTB) Fatal(args ...interface{}) { b.failed = true; b.Log(args...); panic(stopRun{}) }
func (b *recTB) FailNow()                  { b.failed = true; panic(stopRun{}) }
func (b *recTB) Fail()                     { b.failed = true }
func (b *recTB) Failed() bool              { return b.failed }

var passedRe = regexp.MustCompile(`OK, passed (\d+) tests`)

// DeriveSeed mixes VERIF_SEED, property, run name and shard into a rapid seed.
func DeriveSeed(prop, name string) uint64 {
	s := *Seed
	if s == 0 {
		s = 0x9e3779b97f4a7c15
	}
	v := FPs(prop, name, strconv.FormatUint(s, 10), strconv.Itoa(*Shard))
	if v == 0 {
		v = 1
	}
	return v
}

// Rapid runs prop for the requested number of cases with a seed derived from
// VERIF_SEED. A failing run leaves exactly one (the shrunk) failure in r,
// provided prop reports violations through r.Fail before t.Fatalf.
func (r *Rec) Rapid(t *testing.T, name string, checks int, prop func(*rapid.T)) {
	if r.Failed() && !Thorough() {
		// a violation was already found by an earlier stage of this check
		return
	}
	seed := DeriveSeed(r.Prop, name)
	must(flag.Set("rapid.checks", strconv.Itoa(checks)))
	must(flag.Set("rapid.seed", strconv.FormatUint(seed, 10)))
	must(flag.Set("rapid.nofailfile", "true"))
	if !Thorough() {
		must(flag.Set("rapid.shrinktime", "15s"))
	}
	tb := &recTB{name: r.Prop + "/" + name}
	before := r.nFailures()
	start := time.Now()
	func() {
		defer func() {
			if p := recover(); p != nil {
				if _, ok := p.(stopRun); !ok {
					tb.failed = true
					tb.Logf("panic outside property: %v\n%s", p, debug.Stack())
				}
			}
		}()
		// rapid checks its shrink deadline only between passes; one pass can
		// make dozens of attempts, so a property whose failing cases are slow
		// (a 5 s "does not return" verdict, a watchdog) would shrink for many
		// minutes. Once the budget is used up, further attempts return at
		// once (as "does not fail"), which ends the shrinking; the failure
		// kept is the last one that was actually observed.
		budget := 25 * time.Second
		if Thorough() {
			budget = 3 * time.Minute
		}
		var firstFail time.Time
		rapid.Check(tb, func(t *rapid.T) {
			if !firstFail.IsZero() && time.Since(firstFail) > budget {
				return
			}
			n := r.nFailures()
			defer func() {
				if firstFail.IsZero() && r.nFailures() > n {
					firstFail = time.Now()
				}
			}()
			prop(t)
		})
	}()
	run := RapidRun{Name: name, Requested: checks, Seed: seed, Failed: tb.failed, Seconds: time.Since(start).Seconds()}
	for _, l := range tb.logs {
		if m := passedRe.FindStringSubmatch(l); m != nil {
			run.Passed, _ = strconv.Atoi(m[1])
		}
	}
	r.mu.Lock()
	r.runs = append(r.runs, run)
	r.mu.Unlock()
	if tb.failed {
		r.keepLastSince(before)
		if r.nFailures() == before {
			// the property failed without going through r.Fail (generator
			// bug, panic in the harness): report as such, with rapid's log.
			r.Fail("harness", strings.Join(tb.logs, "\n"), "harness", "rapid run %s failed outside an oracle:\n%s", name, strings.Join(tb.logs, "\n"))
		}
		t.Logf("rapid run %s FAILED:\n%s", name, strings.Join(tb.logs, "\n"))
	}
}

func must(err error) {
	if err != nil {
		panic(err)
	}
}

// ---------------------------------------------------------------- replay

// ReplayFile is the on-disk form of a regression input.
type ReplayFile = Failure

// LoadReplays returns the committed replay files of the property plus the
// one given with -vf.replay.
func (r *Rec) LoadReplays(t *testing.T) []ReplayFile {
	var files []string
	if *Replay != "" {
		files = append(files, *Replay)
	} else if *Replays != "" && *Shard == 0 {
		m, _ := filepath.Glob(filepath.Join(*Replays, "*.json"))
		sort.Strings(m)
		files = m
	}
	var out []ReplayFile
	for _, f := range files {
		b, err := os.ReadFile(f)
		if err != nil {
			t.Fatalf("replay file %s: %v", f, err)
		}
		var rf ReplayFile
		if err := json.Unmarshal(b, &rf); err != nil {
			t.Fatalf("replay file %s: %v", f, err)
		}
		if rf.Property != r.Prop {
			continue
		}
		rf.Source = f
		out = append(out, rf)
	}
	r.mu.Lock()
	r.replayed = len(out)
	r.mu.Unlock()
	return out
}

// ReplayOnly reports whether this process was asked to replay one file only.
func ReplayOnly() bool { return *Replay != "" }

// Label names the files a shard process leaves for the driver (in-flight case
// of the watchdog): one name per shard, so that shards that fire at the same
// time do not overwrite each other.
func Label(prop string) string { return fmt.Sprintf("%s.shard%d", prop, *Shard) }

// FailReplay records that a replayed case still violates the property.
func (r *Rec) FailReplay(rf ReplayFile, format string, a ...interface{}) {
	f := rf
	f.Message = fmt.Sprintf(format, a...)
	r.mu.Lock()
	r.failures = append(r.failures, f)
	r.mu.Unlock()
}
